"""Shared machinery of C03 (run-time operands encode like literal ones) and C04 (unencodable operands are rejected) for the aarch64
immediate commands: generated obligations (lib/encgen.py), and the sweeps that tie them to the implementation:
 literal spelling  — plugin in-process (harness/plug)           vs Model/A64Enc.slotStatic (driver stream a64enc)
 run-time spelling — real macro through rustc (harness/dyn)     vs the translated expression (lib/rustexpr.py IR evaluated in Python)
 and, directly on the implementation, literal vs run-time pairwise (C03) and accepted-set / injectivity / documented-set checks (C04)."""
import json
import struct

import common
import dyn
import encgen
import forms
import rustexpr
from common import SplitMix

TYW = {"u32": (32, False), "i32": (32, True), "u64": (64, False), "f32": (32, False)}


def cmd_token(c):
    if isinstance(c, str):
        return c
    out = [c[0]]
    for a in c[1:]:
        out.append(":".join(str(x) for x in a) if isinstance(a, list) else str(a))
    return ",".join(out)


def f32_bits(x):
    return struct.unpack("<I", struct.pack("<f", x))[0]


def bits_f32(b):
    return struct.unpack("<f", struct.pack("<I", b & 0xFFFFFFFF))[0]


def slot_values(ob, rng, n_random):
    """candidate operand values (Python ints; floats as f32 bit patterns) around and beyond the encodable set"""
    c = ob["constraint"]
    w, signed = TYW[ob["ty"]]
    vals = set()
    if ob["ty"] == "f32":
        for f in forms.special_values("float"):
            vals.add(f32_bits(f))
        vals |= {f32_bits(x) for x in (0.0, 0.1, 1.0 / 3, 32.0, 64.0, 0.0625, 0.125, 31.0, 1.9375, 1.96875, -0.124, 1e10)}
        # values that are not ordered numbers, and every single-bit neighbour of some representable values (a check written with float
        # comparisons instead of bit tests differs exactly there)
        vals |= {0x7FC00000, 0xFFC00000, 0x7F880000, 0x7FF80000, 0x7F800000, 0xFF800000, 0x7F800001, 0x7FA00000, 0x00000001, 0x80000000, 0x00800000, 0x3E000000 - 1, 0x41F80000 + 1}
        for f in list(forms.special_values("float"))[:: 1 if n_random > 8 else 3]:
            for k in range(32):
                vals.add(f32_bits(f) ^ (1 << k))
        for _ in range(n_random):
            vals.add(rng.next() & 0xFFF80000)
            vals.add(rng.next() & 0xFFFFFFFF)
        return sorted(vals)
    if isinstance(c, forms.Special):
        base = forms.special_values(c.kind)
        for v in base:
            vals |= {v, v + 1, v - 1, v ^ 1, v ^ (1 << (w - 1)), (v << 1) & ((1 << w) - 1)}
        vals |= {0, 1, (1 << w) - 1, (1 << (w - 1)), 0x12345678, 0xFFFF0001, 0x0001FFFF, 1 << 32, (1 << 32) - 1, (1 << 64) - 1}
        for _ in range(n_random):
            vals.add(rng.next() & ((1 << w) - 1))
    elif isinstance(c, forms.Range):
        vals |= set(c.values(64)) | set(c.outside())
    elif isinstance(c, forms.List_):
        for o in c.options:
            vals |= {int(o), int(o) + 1, int(o) - 1, int(o) + 65536, int(o) + (1 << 32)}
    # type extremes, powers of two, all small values
    vals |= set(range(-4, 70)) | {(1 << k) + d for k in range(5, 34) for d in (-1, 0, 1)} | {-(1 << k) + d for k in range(5, 33) for d in (-1, 0, 1)}
    vals |= {(1 << 31) - 1, -(1 << 31), (1 << 32) - 1, 1 << 32, (1 << 63) - 1}
    for _ in range(n_random):
        r = rng.next()
        vals.add(r & 0xFFFF)
        vals.add(rustexpr.sx(r, 32))
    return sorted(vals)


def in_type(v, ty):
    w, s = TYW[ty]
    return (-(1 << (w - 1)) <= v < (1 << (w - 1))) if s else (0 <= v < (1 << w))


def in_doc(c, v, prev=None):
    if isinstance(c, forms.RangeNon0):
        return c.lo <= v < c.hi and (v - c.lo) % c.step == 0 and v != 0
    if isinstance(c, forms.Range2):
        return prev is not None and 1 <= v < c.hi - prev
    if isinstance(c, forms.Range):
        return c.lo <= v < c.hi and (v - c.lo) % c.step == 0
    if isinstance(c, forms.List_):
        return v in [int(o) for o in c.options]
    return None


def plug(reqs):
    out = []
    for part in common.parallel_map(lambda ch: [a for (_, a) in common.answers_of_impl(common.sh([common.PLUG, "exec"], inp="\n".join(ch) + "\n", timeout=3600)[1])],
                                    [reqs[i:i + 4000] for i in range(0, len(reqs), 4000)]):
        out += part
    return out


def model(reqs):
    out = []
    for part in common.parallel_map(lambda ch: common.answers_of_model(common.run_model("hdr a64enc 1\n" + "\n".join(ch) + "\n")[1])[1:],
                                    [reqs[i:i + 4000] for i in range(0, len(reqs), 4000)]):
        out += part
    return out


def word_of(ans):
    if not ans.startswith("ok "):
        return None
    st = json.loads(ans[3:])
    if len(st) != 1 or not st[0].startswith("c4|"):
        return "dynamic"
    return int(st[0][3:], 16)


def lit_text(ob, v):
    return repr(bits_f32(v)) if ob["ty"] == "f32" else str(v)


def sweep(run, gen, focus, thorough, crate=None):
    """focus: 'C03', 'C04' or 'both' (which comparisons are violations). crate: name of the generated macro crate. Returns stats. Reports violations through run.violation."""
    crate = crate or focus
    rng = SplitMix(run.seed)
    fs = gen["forms"]
    # obligations that could not be TRANSLATED are still swept by execution (c03 reports that the theorem is missing)
    obs = [o for o in gen["obligations"] if "skip" not in o or o.get("exec_only")]
    stats = {"obligations": len(gen["obligations"]), "translated": len([o for o in obs if not o.get("exec_only")]), "skipped": {o["line"] if "line" in o else o["mnemonic"]: o["skip"] for o in gen["obligations"] if "skip" in o},
             "literal": 0, "runtime": 0, "literal_accepted": 0, "runtime_accepted": 0, "pairs_compared": 0, "accepted_outside_documented": 0}
    plan = []          # (ob, prev value or None, v)
    for ob in obs:
        vals = slot_values(ob, rng, 400 if thorough else 8)
        if ob["needs_prev"]:
            f = fs[ob["form"]]
            pc = f.constraints.get(ob["idx"] - 1)
            pvals = sorted(set(([pc.lo, pc.lo + 1, (pc.lo + pc.hi) // 2, pc.hi - 2, pc.hi - 1, pc.hi] if isinstance(pc, forms.Range) else [0, 1, 31, 32, 63, 64])))
            for a in pvals:
                for v in vals:
                    if -2 <= v <= 130:
                        plan.append((ob, a, v))
        else:
            for v in vals:
                plan.append((ob, None, v))
    # ---------------- literal spelling (plugin) and the literal-path model
    lreqs, mreqs, mpreqs = [], [], []
    for (ob, a, v) in plan:
        f = fs[ob["form"]]
        vals = dict(ob["vals"])
        rt = {ob["idx"]: lit_text(ob, v)}
        if a is not None:
            rt[ob["idx"] - 1] = str(a)
        lreqs.append("cl ; .arch aarch64 ; " + f.render(vals, runtime=rt))
        mv = v if ob["ty"] != "f32" else v
        mreqs.append(f"s {a if a is not None else 0} {mv} " + ";".join(cmd_token(c) for c in ob["cmds"]))
    lans = plug(lreqs)
    mans = model(mreqs)
    # contribution of the previous operand (when it is part of the obligation)
    prev_contrib = {}
    pk = sorted({(ob["n"], a) for (ob, a, v) in plan if a is not None})
    if pk:
        obn = {ob["n"]: ob for ob in obs}
        preqs = []
        for (n, a) in pk:
            ob = obn[n]
            g = encgen.group_commands(__import__("rustdebug").parse(gen["entry_of"][ob["form"]]["commands"]))[ob["idx"] - 1]
            preqs.append(f"s 0 {a} " + ";".join(cmd_token(c) for c in g))
        for key, ans in zip(pk, model(preqs)):
            prev_contrib[key] = int(ans[3:]) if ans.startswith("ok ") else None
    lit = {}
    for (ob, a, v), req, la, ma, mreq in zip(plan, lreqs, lans, mans, mreqs):
        stats["literal"] += 1
        w = word_of(la)
        if la.startswith("panic"):
            run.violation("failing-input", {"kind": "compile-panic", "obligation": ob["line"]}, f"`{req[3:]}` panics the compiler: {la[:160]}", {"stream": "plug", "input": [req], "impl": [la]})
            continue
        if w == "dynamic":
            # a literal the plugin does not evaluate at compile time (e.g. beyond i64): it takes the run-time path; nothing to compare here
            continue
        lit[(ob["n"], a, v)] = w
        if w is not None:
            stats["literal_accepted"] += 1
        # model
        if ma.startswith("ok "):
            pc = prev_contrib.get((ob["n"], a), 0) if a is not None else 0
            mw = None if pc is None else (ob["K"] | int(ma[3:]) | pc)
        else:
            mw = None
        if mw != w:
            kind = "literal-path-differs"
            payload = {"stream": "plug", "input": [req], "impl": [la], "model_input": ["hdr a64enc 1", mreq], "model_word": mw}
            what = (f"`{req[3:]}`: the plugin {'emits ' + hex(w) if w is not None else 'rejects'}, the literal-path model (A64Enc.slotStatic) "
                    f"{'gives ' + hex(mw) if mw is not None else 'rejects'}")
            run.violation("broken-correspondence", {"kind": kind, "obligation": ob["lean_cmds"]}, what, payload, found_input=False)
    # ---------------- float literals are written as doubles: one that is not exactly a representable immediate must be rejected, not rounded to one
    if focus in ("C04", "both"):
        freqs, fmeta = [], []
        for ob in obs:
            if ob["ty"] != "f32":
                continue
            f = fs[ob["form"]]
            for txt in ("1.00000000001", "0.12500000001", "-1.9375000001", "2.0000000000000004", "30.999999999", "0.5000000000000001"):
                freqs.append("cl ; .arch aarch64 ; " + f.render(dict(ob["vals"]), runtime={ob["idx"]: txt}))
                fmeta.append((ob, txt))
        seen_m = set()
        for (ob, txt), req, la in zip(fmeta, freqs, plug(freqs)):
            stats["float_literals_between"] = stats.get("float_literals_between", 0) + 1
            w = word_of(la)
            if w is not None and w != "dynamic" and ob["n"] not in seen_m:
                seen_m.add(ob["n"])
                run.violation("failing-input", {"kind": "float-literal-rounded", "mnemonic": ob["mnemonic"], "commands": ob["lean_cmds"]},
                              f"`{req[3:]}` is accepted and assembles to {hex(w)}: {txt} is not one of the 256 representable immediates, it was rounded to one instead of being rejected",
                              {"stream": "plug", "input": [req], "impl": [la]})
    # ---------------- a float literal under signs and parentheses is still the number it denotes: `--0.125` = `-(-0.125)` = 0.125
    if focus in ("C04", "both"):
        sreqs, smeta = [], []
        for ob in obs:
            if ob["ty"] != "f32":
                continue
            f = fs[ob["form"]]
            for mag in ("0.125", "31.0", "1.9375"):
                for spelling, ref in ((f"--{mag}", mag), (f"-(-{mag})", mag), (f"- - -{mag}", f"-{mag}"), (f"-(-(-{mag}))", f"-{mag}"), (f"(-{mag})", f"-{mag}"), (f"-({mag})", f"-{mag}")):
                    sreqs.append("cl ; .arch aarch64 ; " + f.render(dict(ob["vals"]), runtime={ob["idx"]: spelling}))
                    sreqs.append("cl ; .arch aarch64 ; " + f.render(dict(ob["vals"]), runtime={ob["idx"]: ref}))
                    smeta.append((ob, spelling, ref))
        sans = plug(sreqs)
        seen_s = set()
        for k, (ob, spelling, ref) in enumerate(smeta):
            stats["float_literals_signed"] = stats.get("float_literals_signed", 0) + 1
            ws, wr = word_of(sans[2 * k]), word_of(sans[2 * k + 1])
            if ws == "dynamic" or wr == "dynamic" or sans[2 * k].startswith("panic"):
                continue
            if ws != wr and (ob["n"], spelling[:3]) not in seen_s:
                seen_s.add((ob["n"], spelling[:3]))
                run.violation("failing-input", {"kind": "float-literal-sign", "mnemonic": ob["mnemonic"], "commands": ob["lean_cmds"], "spelling": spelling},
                              f"`{sreqs[2 * k][3:]}` {'assembles to ' + hex(ws) if ws is not None else 'is rejected'}, but the same number written `{ref}` "
                              f"{'assembles to ' + hex(wr) if wr is not None else 'is rejected'}",
                              {"stream": "plug", "input": [sreqs[2 * k], sreqs[2 * k + 1]], "impl": [sans[2 * k], sans[2 * k + 1]]})
    # ---------------- run-time spelling: the real macro through rustc
    cases = []
    for ob in obs:
        vs = []
        if ob["needs_prev"]:
            vs.append(("a", "u32"))
        vs.append(("v", ob["ty"]))
        cases.append(dict(body="; .arch aarch64 ; " + ob["line"], vars=vs))
    import exprhyg
    all_cases, twin_ix = exprhyg.extend(cases)
    ok, log = dyn.build(crate, all_cases)
    if not ok:
        run.violation("broken-correspondence", {"kind": "harness-build", "harness": "dyn"}, "the generated crate using the real dynasm! macro does not build against the working tree",
                      {"log": log[-3000:]}, found_input=False)
        return stats
    case_of = {ob["n"]: i for i, ob in enumerate(obs)}
    dreqs, dplan = [], []
    for (ob, a, v) in plan:
        if not in_type(v, ob["ty"]) or (a is not None and not 0 <= a < (1 << 32)):
            continue
        dreqs.append((case_of[ob["n"]], ([a] if a is not None else []) + [v]))
        dplan.append((ob, a, v))
    dres = dyn.run(crate, dreqs)
    stats["expression_twins"] = exprhyg.compare(run, crate, "C03" if focus == "both" else focus, all_cases, twin_ix, dreqs, dres)
    if focus in ("C03", "both"):
        stats["expression_twins_left"] = exprhyg.compare_left(run, crate, "C03", cases, dreqs, dres)
    accepted = {}
    for (ob, a, v), (idx, vals), (st, b) in zip(dplan, dreqs, dres):
        stats["runtime"] += 1
        rw = int.from_bytes(b, "little") if st == "ok" else None
        if rw is not None:
            stats["runtime_accepted"] += 1
            accepted.setdefault((ob["n"], a), {})[v] = rw
        desc = f"dynasm!(ops {cases[idx]['body']}) with " + (f"a = {a}, " if a is not None else "") + f"v = {lit_text(ob, v)}"
        payload = {"stream": "dyn", "case": cases[idx], "values": vals}
        # translator validation (checked arithmetic: the harness is built with overflow checks)
        env = {"v": v & ((1 << TYW[ob["ty"]][0]) - 1)}
        if a is not None:
            env["a"] = a
        ext = EXT_PY
        try:
            if not ob.get("ir"):
                raise KeyError("no translation")
            p, val, _ = ob["ir"][True]
            ir_panic = rustexpr.ev(p, env, ext)
            ir_w = None if ir_panic else rustexpr.ev(val, env, ext)
        except KeyError:
            ir_w = "unknown"
        if ir_w != "unknown" and ir_w != rw:
            run.violation("broken-correspondence", {"kind": "translation-differs", "obligation": ob["lean_cmds"]},
                          f"{desc}: rustc's result {hex(rw) if rw is not None else 'panic'} differs from the translated expression {hex(ir_w) if ir_w is not None else 'panic'}",
                          dict(payload, impl=b.hex() if st == "ok" else b), found_input=False)
        # C03: literal vs run-time, pairwise on the implementation
        key = (ob["n"], a, v)
        if key in lit:
            stats["pairs_compared"] += 1
            lw = lit[key]
            if lw != rw and (focus in ("C03", "both") or (focus == "C04" and lw is None)):
                if lw is None:
                    what = f"{desc} assembles to {hex(rw)} although the literal spelling is rejected at compile time"
                    kind = "runtime-accepts-rejected-literal"
                elif rw is None:
                    what = f"{desc} panics ({b[:80]}) although the literal spelling assembles to {hex(lw)}"
                    kind = "runtime-rejects-accepted-literal"
                else:
                    what = f"{desc} assembles to {hex(rw)}, the literal spelling to {hex(lw)}"
                    kind = "runtime-differs-from-literal"
                run.violation("failing-input", {"kind": kind, "mnemonic": ob["mnemonic"], "commands": ob["lean_cmds"]}, what,
                              dict(payload, literal_line=fs[ob["form"]].render(dict(ob["vals"]), runtime={ob["idx"]: lit_text(ob, v), **({ob["idx"] - 1: str(a)} if a is not None else {})}), impl=b.hex() if st == "ok" else b))
    # ---------------- coupled operands (lsb/width of the bitfield aliases) in MIXED spelling: one of the two at run time, the other literal.
    # The both-literal result is the reference; the pairs are the ones on either side of an acceptance boundary.
    mixed_cases, mixed_meta = [], []
    for ob in (obs if focus in ("C04", "both") else []):
        if not ob["needs_prev"]:
            continue
        by_a = {}
        for (o, a, v) in plan:
            if o is ob and a is not None and (ob["n"], a, v) in lit and in_type(v, ob["ty"]):
                by_a.setdefault(a, set()).add(v)
        chosen = set()
        for a, vs in by_a.items():
            vs = sorted(vs)
            for v0, v1 in zip(vs, vs[1:]):
                if (lit[(ob["n"], a, v0)] is None) != (lit[(ob["n"], a, v1)] is None):
                    chosen |= {(a, v0), (a, v1)}
        f = fs[ob["form"]]
        for (a, v) in sorted(chosen)[:12]:
            mixed_cases.append(dict(body="; .arch aarch64 ; " + f.render(dict(ob["vals"]), runtime={ob["idx"]: lit_text(ob, v), ob["idx"] - 1: "a"}), vars=[("a", "u32")]))
            mixed_meta.append((ob, a, v, [a]))
            mixed_cases.append(dict(body="; .arch aarch64 ; " + f.render(dict(ob["vals"]), runtime={ob["idx"]: "v", ob["idx"] - 1: str(a)}), vars=[("v", ob["ty"])]))
            mixed_meta.append((ob, a, v, [v]))
    if mixed_cases:
        okm, logm, dropped = dyn.build_tolerant(crate + "M", mixed_cases)
        if not okm:
            run.violation("broken-correspondence", {"kind": "harness-build", "harness": "dyn-mixed"}, "the generated crate with mixed literal/run-time operand pairs does not build",
                          {"log": logm[-3000:]}, found_input=False)
        else:
            mres = dyn.run(crate + "M", [(k, vals) for k, (_, _, _, vals) in enumerate(mixed_meta)])
            for k, ((ob, a, v, vals), (st, b)) in enumerate(zip(mixed_meta, mres)):
                stats["mixed_spelling"] = stats.get("mixed_spelling", 0) + 1
                rw = None if (k in dropped or st != "ok") else int.from_bytes(b, "little")
                lw = lit[(ob["n"], a, v)]
                if rw != lw:
                    run.violation("failing-input", {"kind": "mixed-spelling-differs", "mnemonic": ob["mnemonic"], "commands": ob["lean_cmds"], "runtime": "previous" if vals == [a] else "this"},
                                  f"dynasm!(ops {mixed_cases[k]['body']}) with {mixed_cases[k]['vars'][0][0]} = {vals[0]} "
                                  f"{'assembles to ' + hex(rw) if rw is not None else 'is refused'}, but with both operands literal ({a}, {v}) the instruction "
                                  f"{'assembles to ' + hex(lw) if lw is not None else 'is rejected'}",
                                  {"stream": "dyn", "case": mixed_cases[k], "values": vals})
    # ---------------- C04 on the implementation: documented values accepted, accepted values encoded injectively, both spellings
    if focus in ("C04", "both"):
        for (ob, a, v) in plan:
            d = in_doc(ob["constraint"], v, a)
            key = (ob["n"], a, v)
            for (spelling, res) in (("literal", lit.get(key, "absent")), ("run-time", accepted.get((ob["n"], a), {}).get(v) if in_type(v, ob["ty"]) else "absent")):
                if res == "absent":
                    continue
                if spelling == "run-time" and key not in lit:
                    pass
                f = fs[ob["form"]]
                line = f.render(dict(ob["vals"]), runtime={ob["idx"]: lit_text(ob, v), **({ob["idx"] - 1: str(a)} if a is not None else {})})
                if d is True and res is None:
                    run.violation("failing-input", {"kind": "documented-value-rejected", "mnemonic": ob["mnemonic"], "commands": ob["lean_cmds"]},
                                  f"`{line}` ({spelling} spelling): the operand {v}" + (f" (previous operand {a})" if a is not None else "") + f" lies in the documented set of the form but is rejected",
                                  {"stream": "plug", "input": ["cl ; .arch aarch64 ; " + line], "spelling": spelling})
                if d is False and res is not None:
                    stats["accepted_outside_documented"] += 1
        # injectivity over everything accepted (literal spelling, then run-time spelling)
        obn = {ob["n"]: ob for ob in obs}
        by_rt = {}
        for (n, a), m in accepted.items():
            for v, w in m.items():
                by_rt.setdefault((n, a), {}).setdefault(w, []).append(v)
        for (n, a), ws in by_rt.items():
            ob = obn[n]
            for w, vs in ws.items():
                if len(vs) > 1 and not (ob["ty"] == "f32" and len({bits_f32(v) for v in vs}) == 1):
                    case = cases[case_of[n]]
                    run.violation("failing-input", {"kind": "runtime-operand-wrapped", "mnemonic": ob["mnemonic"], "commands": ob["lean_cmds"]},
                                  f"dynasm!(ops {case['body']}) accepts both v = {lit_text(ob, vs[0])} and v = {lit_text(ob, vs[1])}" + (f" (a = {a})" if a is not None else "") +
                                  f" at run time and assembles both to {hex(w)}: one of the operands was masked into the field instead of panicking",
                                  {"stream": "dyn", "case": case, "values": ([a] if a is not None else []) + [vs[0]], "other_values": ([a] if a is not None else []) + [vs[1]]})
                    break
        by_ob = {}
        for (n, a, v), w in lit.items():
            if w is not None:
                by_ob.setdefault((n, a), {}).setdefault(w, []).append(v)
        for (n, a), ws in by_ob.items():
            for w, vs in ws.items():
                if len(vs) > 1:
                    ob = obn[n]
                    f = fs[ob["form"]]
                    lines = [f.render(dict(ob["vals"]), runtime={ob["idx"]: lit_text(ob, v), **({ob["idx"] - 1: str(a)} if a is not None else {})}) for v in vs[:2]]
                    if ob["ty"] == "f32" and len({bits_f32(v) for v in vs}) == 1:
                        continue
                    run.violation("failing-input", {"kind": "operand-wrapped", "mnemonic": ob["mnemonic"], "commands": ob["lean_cmds"]},
                                  f"`{lines[0]}` and `{lines[1]}` are both accepted and assemble to the same word {hex(w)}: one of the operands was masked into the field",
                                  {"stream": "plug", "input": ["cl ; .arch aarch64 ; " + l for l in lines]})
                    break
    return stats


def _l32(v):
    r = plug_enc("r.logical32", v)
    return r


_ENC_CACHE = {}


def plug_enc(fn, v):
    key = (fn, v)
    if key not in _ENC_CACHE:
        _, out = common.sh([common.PLUG, "exec"], inp=f"enc {fn} {v}\n")
        a = common.answers_of_impl(out)[0][1]
        _ENC_CACHE[key] = int(a.split()[1]) if a.startswith("some") else None
    return _ENC_CACHE[key]


# external functions called by the generated code, for the Python evaluation of the translation: the run-time crate's own encoders
EXT_PY = {"logical32.ok": lambda v: plug_enc("r.logical32", v) is not None, "logical32.val": lambda v: plug_enc("r.logical32", v) or 0,
          "logical64.ok": lambda v: plug_enc("r.logical64", v) is not None, "logical64.val": lambda v: plug_enc("r.logical64", v) or 0,
          "float.ok": lambda v: plug_enc("r.float", v) is not None, "float.val": lambda v: plug_enc("r.float", v) or 0}


# =================================================================================================== riscv
def sweep_rv(run, gen, focus, thorough):
    """riscv immediates: literal spelling (plugin) vs run-time spelling (real macro) vs the translated expression (which the generated
    theorems equate with the literal-path model RvEnc for every value of the operand type)."""
    rng = SplitMix(run.seed ^ 0x5EED)
    fs = gen["forms"]
    obs = [o for o in gen["obligations"] if "skip" not in o]
    stats = {"obligations": len(gen["obligations"]), "translated": len(obs), "literal": 0, "runtime": 0, "literal_accepted": 0, "runtime_accepted": 0, "pairs_compared": 0}
    TY = {"u32": (32, False), "i32": (32, True), "i64": (64, True)}
    plan = []
    for ob in obs:
        ob2 = dict(ob, ty=ob["ty"] if ob["ty"] != "i64" else "i32")
        vals = set(slot_values(dict(ob, ty="i32" if ob["ty"] != "u32" else "u32"), rng, 400 if thorough else 8))
        if ob["ty"] == "i64":
            vals |= {(1 << k) + d for k in range(33, 64) for d in (-1, 0)} | {-(1 << k) + d for k in range(33, 64) for d in (0, 1)} | {(1 << 63) - 1, -(1 << 63), 1 << 63}
        for v in sorted(vals):
            plan.append((ob, v))
    lreqs = ["cl " + ob["header"] + " " + fs[ob["form"]].render(dict(ob["vals"]), runtime={ob["idx"]: str(v)}) for (ob, v) in plan]
    lans = plug(lreqs)
    cases = [dict(body=ob["header"] + " " + ob["line"], vars=[("v", ob["ty"])]) for ob in obs]
    import exprhyg
    all_cases, twin_ix = exprhyg.extend(cases)
    ok, log = dyn.build(focus + "V", all_cases)
    if not ok:
        run.violation("broken-correspondence", {"kind": "harness-build", "harness": "dyn-riscv"}, "the generated crate with riscv run-time immediates does not build against the working tree",
                      {"log": log[-3000:]}, found_input=False)
        return stats
    case_of = {ob["n"]: i for i, ob in enumerate(obs)}

    def lit_words(a):
        if not a.startswith("ok "):
            return None
        b = b""
        for st in json.loads(a[3:]):
            k, _, v = st.partition("|")
            if k in ("c2", "c4"):
                b += int(v, 16).to_bytes(int(k[1]), "little")
            elif k[:2] == "eu":
                return "dynamic"
        return b

    dreqs, dplan = [], []
    for (ob, v), la in zip(plan, lans):
        w, sg = TY[ob["ty"]]
        if (-(1 << (w - 1)) <= v < (1 << (w - 1))) if sg else (0 <= v < (1 << w)):
            dreqs.append((case_of[ob["n"]], [v]))
            dplan.append((ob, v, la))
    dres = dyn.run(focus + "V", dreqs)
    stats["expression_twins"] = exprhyg.compare(run, focus + "V", focus, all_cases, twin_ix, dreqs, dres)
    if focus == "C03":
        stats["expression_twins_left"] = exprhyg.compare_left(run, focus + "V", focus, cases, dreqs, dres)
    rt = {}
    for (ob, v, la), (idx, vals), (st, b) in zip(dplan, dreqs, dres):
        stats["runtime"] += 1
        rt[(ob["n"], v)] = b if st == "ok" else None
        if st == "ok":
            stats["runtime_accepted"] += 1
        desc = f"dynasm!(ops {cases[idx]['body']}) with v = {v}"
        payload = {"stream": "dyn", "case": cases[idx], "values": vals}
        # translator validation
        env = {"v": v & ((1 << TY[ob["ty"]][0]) - 1)}
        irb = b""
        panic = False
        for wd in ob["words"]:
            if wd["ir"]:
                p, val, _ = wd["ir"][True]
                if rustexpr.ev(p, env):
                    panic = True
                    break
                irb += rustexpr.ev(val, env).to_bytes(wd["w"] // 8, "little")
            else:
                irb += wd["K"].to_bytes(wd["w"] // 8, "little")
        irr = None if panic else irb
        if irr != rt[(ob["n"], v)]:
            run.violation("broken-correspondence", {"kind": "translation-differs", "obligation": ob["lean_cmds"]},
                          f"{desc}: rustc's result {b.hex() if st == 'ok' else 'panic'} differs from the translated expression {irr.hex() if irr is not None else 'panic'}", payload, found_input=False)
        lw = lit_words(la)
        if lw == "dynamic":
            continue
        stats["pairs_compared"] += 1
        # C03: the two spellings differ in any way; C04: an operand the literal spelling rejects is ACCEPTED at run time (masked into the field)
        if lw != rt[(ob["n"], v)] and (focus == "C03" or (focus == "C04" and lw is None)):
            kind = "runtime-accepts-rejected-literal" if lw is None else "runtime-rejects-accepted-literal" if rt[(ob["n"], v)] is None else "runtime-differs-from-literal"
            run.violation("failing-input", {"kind": kind, "mnemonic": ob["mnemonic"], "commands": ob["lean_cmds"]},
                          f"{desc}: run-time spelling gives {b.hex() if st == 'ok' else 'panic (' + b[:60] + ')'}, the literal spelling {lw.hex() if lw is not None else 'is rejected'}", payload)
    lit = {}
    for (ob, v), la, req in zip(plan, lans, lreqs):
        stats["literal"] += 1
        lw = lit_words(la)
        if la.startswith("panic"):
            run.violation("failing-input", {"kind": "compile-panic", "obligation": ob["line"]}, f"`{req[3:]}` panics the compiler: {la[:160]}", {"stream": "plug", "input": [req], "impl": [la]})
            continue
        if lw == "dynamic":
            continue
        lit[(ob["n"], v)] = lw
        if lw is not None:
            stats["literal_accepted"] += 1
        if focus == "C04":
            d = in_doc(ob["constraint"], v)
            if d is True and lw is None:
                run.violation("failing-input", {"kind": "documented-value-rejected", "mnemonic": ob["mnemonic"], "commands": ob["lean_cmds"]},
                              f"`{req[3:]}`: the operand {v} lies in the documented set of the form but is rejected ({la[:80]})", {"stream": "plug", "input": [req]})
    if focus == "C04":
        partial = lambda ob: encgen.name_of(ob["cmd"]) == "Offset" and ob["cmd"][1] in ("HI20", "LO12", "LO12S")     # noqa: E731
        for (src, table) in (("literal", lit), ("run-time", rt)):
            by = {}
            for (n, v), w in table.items():
                if w is not None:
                    by.setdefault(n, {}).setdefault(w, []).append(v)
            obn = {ob["n"]: ob for ob in obs}
            for n, ws in by.items():
                if partial(obn[n]):
                    continue
                for w, vs in ws.items():
                    if len(vs) > 1:
                        ob = obn[n]
                        run.violation("failing-input", {"kind": "operand-wrapped", "mnemonic": ob["mnemonic"], "commands": ob["lean_cmds"], "spelling": src},
                                      f"`{ob['header']} {ob['line']}` ({src} spelling): v = {vs[0]} and v = {vs[1]} are both accepted and assemble to the same bytes {w.hex()}: one was masked into the field",
                                      {"stream": "plug", "input": ["cl " + ob["header"] + " " + fs[ob["form"]].render(dict(ob["vals"]), runtime={ob["idx"]: str(x)}) for x in vs[:2]]})
                        break
    return stats


def sweep_reg_translation(run, gen, focus):
    """register obligations: rustc's evaluation of the generated expression vs its translation, every register number"""
    obs = [o for o in gen["obligations"] if "skip" not in o]
    stats = {"obligations": len(gen["obligations"]), "translated": len(obs), "runs": 0}
    cases = [dict(body=o["header"] + " " + o["line"], vars=[("v", o["ty"])]) for o in obs]
    ok, log = dyn.build(focus + "G", cases)
    if not ok:
        run.violation("broken-correspondence", {"kind": "harness-build", "harness": "dyn-register-obligations"}, "the generated crate of the register obligations does not build", {"log": log[-2000:]}, found_input=False)
        return stats
    reqs = [(i, [v]) for i in range(len(obs)) for v in range(32)]
    for (i, vals), (st, b) in zip(reqs, dyn.run(focus + "G", reqs)):
        stats["runs"] += 1
        o = obs[i]
        p, val, _ = o["ir"][True]
        env = {"v": vals[0]}
        want = None if rustexpr.ev(p, env) else rustexpr.ev(val, env).to_bytes(o["w"] // 8, "little")
        got = b if st == "ok" else None
        if want != got:
            run.violation("broken-correspondence", {"kind": "translation-differs", "obligation": o["cmd"], "arch": o["arch"]},
                          f"dynasm!(ops {cases[i]['body']}) with v = {vals[0]}: rustc gives {got.hex() if got is not None else 'panic'}, the translated expression {want.hex() if want is not None else 'panic'}",
                          {"stream": "dyn", "case": cases[i], "values": vals}, found_input=False)
    return stats
