"""C20 — architecture and feature selection gate exactly the instructions they should.
Proof: lean/DynasmVerif/Props/C20.lean (rv_accept_iff, rvSelect_spec, rv_more_features_same_form, rv_unstable_are_known, x64_accept_iff,
x64_more_features_same_form, x64_shadowed_are_known, parse_append, case_insensitive, upper_case_same, split_combined, g/b_shorthand).
Tie: T-data (tables + extension-name table of today's source) and the plugin-as-library: every riscv form x {rv32i, rv32e, rv64i, rv64e} x feature sets
{none, exactly required, required minus one, all}; the pinned x64 corpus x {x64, x86} x {none, required, all}; parse_features on generated spellings
against the Lean model (evaluated by `lean` on a generated vector file)."""
import json
import os
import re

import common
import corpus
import forms
import tables
from c19 import header, words_of
from common import SplitMix

MODULES = ["DynasmVerif.Props.C20"]


def split_ext(e):
    """names in an ExtensionFlags display string such as `cd`, `mzcb`, `zbb_zcb`, `dzfa` (same grammar as parse_features)"""
    e = e.lower()
    out, i = [], 0
    while i < len(e):
        if e[i] == "_":
            i += 1
        elif e[i] == "z":
            j = e.find("_", i)
            j = len(e) if j < 0 else j
            out.append(e[i:j])
            i = j
        else:
            out.append(e[i])
            i += 1
    return out


def known_lists(run):
    unstable, shadowed = [], []
    for k in run.known.get("open", []):
        if k.get("property") != "C20":
            continue
        m = k.get("match", {})
        if m.get("kind") == "feature-instability":
            unstable.append(m["mnemonic"])
        elif m.get("kind") == "x64-shadowed-form":
            shadowed.append((m["mnemonic"], m["forms"]))
    return sorted(set(unstable)), shadowed


def lean_eval(lines, imports):
    """evaluate `#eval` lines with lean; returns the printed lines"""
    path = os.path.join(common.GEN, "EvalC20.lean")
    with open(path, "w") as f:
        for i in imports:
            f.write(f"import {i}\n")
        f.write("open DynasmVerif DynasmVerif.Feat\n")
        for l in lines:
            f.write(l + "\n")
    with common.Lock("lake"):
        rc, out = common.sh(["lake", "env", "lean", path], cwd=common.LEAN)
    return rc, out


def plug(reqs):
    chunks = [reqs[i:i + 20000] for i in range(0, len(reqs), 20000)]

    def go(ch):
        rc, out = common.sh([common.PLUG, "exec"], inp="\n".join(ch) + "\n")
        return [a for (_, a) in common.answers_of_impl(out)]
    return [a for part in common.parallel_map(go, chunks) for a in part]


def check(run):
    rng = SplitMix(run.seed)
    thorough = run.tier == "thorough"
    common.base_trusted(run)
    run.coverage["trusted_base"] += ["lib/tables.py (tables, extension-name table read from riscv/mod.rs, riscvdata.rs, x64data.rs)", "harness/plug + proc-macro-error2 shim",
                                     "Model/Features.lean matcherCompat (conservative overlap of matcher lists)"]
    run.assumptions += ["riscv combined spelling = the grammar documented in riscv/mod.rs: single letters, then z-names separated by underscores",
                        "x64 'exists for the variant' is X86_ONLY + operand-size/REX rules; llvm-mc is not consulted here"]
    ok, log = common.build_harness("plug")
    if not ok:
        run.violation("broken-correspondence", {"kind": "harness-build"}, "harness/plug does not build against the working tree", {"log": log[-3000:]}, found_input=False)
        return
    known_unstable, known_shadowed = known_lists(run)
    gen_err = None
    feat = {}
    try:
        rv_info = tables.gen_rv()
        x_info = tables.gen_x64()
        feat = tables.gen_features(known_unstable, known_shadowed)
    except tables.TranslationError as e:
        gen_err = str(e)
    found_before = len(run.violations) + len(run.known_hit)
    proofs_ok = False
    if gen_err is None:
        proofs_ok = common.standard_proof_step(run, MODULES, allow_bv_decide=False)
    stats = {}
    # ---- what the model says about today's tables (also when the theorem no longer matches the known lists)
    actual_unstable, actual_shadowed = None, None
    if gen_err is None:
        rc, out = lean_eval(["#eval unstableGroups Rv.Gen.table", "#eval x64ShadowedGroups X64.Gen.table"],
                            ["DynasmVerif.Generated.FeatData", "DynasmVerif.Generated.RvAll", "DynasmVerif.Generated.X64All"])
        m = re.findall(r"\[[^\n]*\]", out)
        if rc == 0 and len(m) >= 2:
            actual_unstable = [feat["rv_mnemonics"][int(i)] for i in re.findall(r"\d+", m[0])]
            actual_shadowed = [(feat["x64_mnemonics"][int(a)], [int(x) for x in re.findall(r"\d+", b)]) for (a, b) in re.findall(r"\((\d+), \[([^\]]*)\]\)", m[1])]
    # ---- riscv: every form x target x feature set
    try:
        fs = forms.load("riscv")
    except Exception as e:
        fs = []
        run.violation("broken-correspondence", {"kind": "extract"}, f"extract_opmap output could not be read: {e}", found_input=False)
    all_ext = sorted(feat.get("ext_names", {}))
    all_spelling = ", ".join(all_ext) if all_ext else "i"
    reqs, plan = [], []
    for fi, f in enumerate(fs):
        base = f.base_values()
        if base is None:
            continue
        text = f.render(base)
        isas, exts = f.extra[0], f.extra[1]        # ["rv32","rv64"], ["zk","zkn",...] alternatives
        for target in ("riscv32i", "riscv64i", "riscv32e", "riscv64e"):
            valid = ("rv32" if "32" in target else "rv64") in isas
            sets = [("none", "none"), ("all", all_spelling)]
            for e in exts[: (len(exts) if thorough else 2)]:
                parts = split_ext(e)
                sets.append(("exact:" + e, ", ".join(parts)))
                for drop in range(len(parts)):
                    rest = parts[:drop] + parts[drop + 1:]
                    sets.append((f"minus:{e}:{parts[drop]}", ", ".join(rest) if rest else "none"))
            for (label, spelling) in sets:
                reqs.append(f"cl ; .arch {target} ; .feature {spelling} ; {text}")
                plan.append((fi, target, valid, label))
    answers = plug(reqs)
    stats["riscv_requests"] = len(reqs)
    by_form = {}
    for (p, a, r) in zip(plan, answers, reqs):
        by_form.setdefault((p[0], p[1]), []).append((p, a, r))
    n_viol = 0
    unstable_seen = {}
    for (fi, target), items in by_form.items():
        f = fs[fi]
        res = {p[3]: (a, r) for (p, a, r) in items}
        valid = items[0][0][2]
        embedded = target.endswith("e")
        uses_high = False
        # the E profile rejects integer registers >= 16 (base instantiation uses register 1: not affected)
        for (label, (a, r)) in res.items():
            if a.startswith("panic") and n_viol < 4:
                n_viol += 1
                run.violation("failing-input", {"kind": "macro-panic", "mnemonic": f.mnemonic}, f"the macro panics on `{r[3:]}`", {"stream": "plug", "input": [r], "impl": [a]})
        acc = {label: a.startswith("ok") for (label, (a, r)) in res.items()}
        if not valid:
            # the form does not exist for this XLEN; another form of the mnemonic might — only flag when nothing of the mnemonic exists for it
            others = [g for g in fs if g.mnemonic == f.mnemonic and (("rv32" if "32" in target else "rv64") in g.extra[0])]
            if not others and any(acc.values()) and n_viol < 4:
                n_viol += 1
                lab = next(l for l in acc if acc[l])
                run.violation("failing-input", {"kind": "accepted-for-wrong-xlen", "mnemonic": f.mnemonic, "target": target},
                              f"`{res[lab][1][3:]}` is accepted although no form of `{f.mnemonic}` exists for {target}", {"stream": "plug", "input": [res[lab][1]], "impl": [res[lab][0]]})
            continue
        # exactly-required sets must accept
        for label in acc:
            if label.startswith("exact:") and not acc[label] and n_viol < 4:
                n_viol += 1
                run.violation("failing-input", {"kind": "rejected-with-required-features", "mnemonic": f.mnemonic, "target": target},
                              f"`{res[label][1][3:]}` is rejected although its required extension set is enabled: {res[label][0][:120]}",
                              {"stream": "plug", "input": [res[label][1]], "impl": [res[label][0]]})
        if not acc.get("all", True) and n_viol < 4:
            n_viol += 1
            run.violation("failing-input", {"kind": "rejected-with-all-features", "mnemonic": f.mnemonic, "target": target},
                          f"`{res['all'][1][3:]}` is rejected with every extension enabled", {"stream": "plug", "input": [res["all"][1]], "impl": [res["all"][0]]})
        # nothing of the mnemonic may be accepted when none of the alternatives of any of its forms is enabled: 'none' = only I
        same = [g for g in fs if g.mnemonic == f.mnemonic and (("rv32" if "32" in target else "rv64") in g.extra[0])]
        needs_more_than_i = all(all(set(split_ext(e)) - {"i"} for e in g.extra[1]) for g in same)
        # a set that lacks one extension of every alternative of every form of the mnemonic must be rejected
        for label in acc:
            if label.startswith("minus:") and acc[label]:
                spelled = res[label][1].split(".feature", 1)[1].split(";")[0]
                enabled = set(x.strip() for x in spelled.split(",") if x.strip() and x.strip() != "none") | {"i"}
                if not any(any(set(split_ext(e)) <= enabled for e in g.extra[1]) for g in same) and n_viol < 4:
                    n_viol += 1
                    run.violation("failing-input", {"kind": "accepted-with-missing-extension", "mnemonic": f.mnemonic, "target": target},
                                  f"`{res[label][1][3:]}` is accepted although no form of `{f.mnemonic}` has all its required extensions enabled (enabled: {sorted(enabled)})",
                                  {"stream": "plug", "input": [res[label][1]], "impl": [res[label][0]]})
        if needs_more_than_i and acc.get("none") and n_viol < 4:
            n_viol += 1
            run.violation("failing-input", {"kind": "accepted-without-features", "mnemonic": f.mnemonic, "target": target},
                          f"`{res['none'][1][3:]}` is accepted with no extension enabled although every form of `{f.mnemonic}` requires one",
                          {"stream": "plug", "input": [res["none"][1]], "impl": [res["none"][0]]})
        # stability: the bytes under 'all' equal the bytes under every accepting smaller set
        wall = words_of(res["all"][0]) if "all" in res else None
        for label in acc:
            if label != "all" and acc[label] and wall is not None:
                w = words_of(res[label][0])
                if w is not None and w != wall:
                    unstable_seen.setdefault(f.mnemonic, (res[label][1], res[label][0], res["all"][1], res["all"][0]))
    for m, (r1, a1, r2, a2) in sorted(unstable_seen.items()):
        run.violation("failing-input", {"kind": "feature-instability", "mnemonic": m},
                      f"`{m}`: enabling more features changes the bytes: `{r1[3:]}` → {a1[:70]} but with all extensions → {a2[:70]}",
                      {"stream": "plug", "input": [r1, r2], "impl": [a1, a2]})
    stats["riscv_unstable_observed"] = sorted(unstable_seen)
    # ---- spellings of extension strings: harness vs Lean model
    spell_reqs, spell_lean = [], []
    names = all_ext + ["ztso", "ztso"]
    groups_ = []
    for _ in range(400 if thorough else 120):
        k = rng.range(1, 6)
        chosen = [rng.choice(names) for _ in range(k)] if names else ["i"]
        singles = sorted(set(c for c in chosen if len(c) == 1))
        longs = sorted(set(c for c in chosen if len(c) > 1))
        variants = []
        combined = "".join(singles) + "_".join(longs)
        if combined:
            variants.append([combined])
        variants.append(singles + longs)
        variants.append(list(reversed(singles + longs)))
        variants.append(["".join(ch.upper() if rng.chance(1, 2) else ch for ch in x) for x in singles + longs])
        if {"m", "a", "f", "d", "zicsr", "zifencei"} <= set(chosen):
            variants.append(["g"] + [c for c in singles + longs if c not in ("m", "a", "f", "d", "zicsr", "zifencei")])
        groups_.append((len(spell_reqs), len(variants)))
        for v in variants:
            spell_reqs.append("feat " + ", ".join(v))
            spell_lean.append("#eval parseFeatures Gen.extTable Gen.exI [" + ", ".join(f'str "{x}"' for x in v) + "]")
    spell_reqs += ["feat g", "feat mafd_zicsr_zifencei", "feat b", "feat zba_zbb_zbs", "feat gc", "feat IMAC", "feat imac"]
    spell_lean += ['#eval parseFeatures Gen.extTable Gen.exI [str "g"]', '#eval parseFeatures Gen.extTable Gen.exI [str "mafd_zicsr_zifencei"]',
                   '#eval parseFeatures Gen.extTable Gen.exI [str "b"]', '#eval parseFeatures Gen.extTable Gen.exI [str "zba_zbb_zbs"]',
                   '#eval parseFeatures Gen.extTable Gen.exI [str "gc"]', '#eval parseFeatures Gen.extTable Gen.exI [str "IMAC"]',
                   '#eval parseFeatures Gen.extTable Gen.exI [str "imac"]']
    impl_sp = plug(spell_reqs)
    # the property itself on the implementation: equivalent spellings of one extension set enable identical sets
    for (start, n) in groups_:
        vals = [impl_sp[i].split()[0] for i in range(start, start + n)]
        if len(set(vals)) > 1:
            j = next(i for i in range(1, n) if vals[i] != vals[0])
            run.violation("failing-input", {"kind": "spellings-differ"},
                          f"equivalent spellings enable different extension sets: `{spell_reqs[start][5:]}` → {vals[0]} but `{spell_reqs[start + j][5:]}` → {vals[j]}",
                          {"stream": "plug", "input": [spell_reqs[start], spell_reqs[start + j]], "impl": [impl_sp[start], impl_sp[start + j]]})
            break
    if gen_err is None:
        rc, out = lean_eval(spell_lean, ["DynasmVerif.Generated.FeatData"])
        model_sp = re.findall(r"^(\d+)$", out, re.M)
        stats["spellings"] = len(spell_reqs)
        if len(model_sp) != len(spell_reqs):
            run.violation("broken-correspondence", {"kind": "spelling-model-eval"}, f"lean evaluated {len(model_sp)} of {len(spell_reqs)} spelling vectors: {out[-300:]}", found_input=False)
        else:
            for (r, a, m) in zip(spell_reqs, impl_sp, model_sp):
                if a.split()[0] != m:
                    run.violation("broken-correspondence", {"kind": "spelling-model-differs"}, f"parse_features `{r[5:]}`: implementation {a}, model {m}",
                                  {"stream": "plug", "input": [r], "impl": [a], "model": [m]}, found_input=False)
                    break
    # groups of equivalent spellings must give identical flag sets (the property itself, on the implementation)
    # (the variants of one draw are consecutive; re-derive the grouping by replaying the generator is overkill: compare through the model instead)
    # ---- x64: pinned corpus x modes x feature sets
    xc = corpus.load("gen_x64")
    if not thorough:
        xc = [xc[i] for i in sorted(set(rng.below(len(xc)) for _ in range(1500)))] if xc else []
    xreqs, xplan = [], []
    for ci, (body, bs, fname) in enumerate(xc):
        line = body.split(";", 2)[2].strip() if body.count(";") >= 2 else body
        for arch in ("x64", "x86"):
            for label, spelling in (("all-default", None), ("none", "none")):
                feat_part = f"; .feature {spelling} " if spelling else ""
                xreqs.append(f"cl ; .arch {arch} {feat_part}; {line}")
                xplan.append((ci, arch, label))
    xans = plug(xreqs)
    stats["x64_requests"] = len(xreqs)
    second = []
    for (p, a, r) in zip(xplan, xans, xreqs):
        if p[2] == "none" and a.startswith("reject"):
            m = re.search(r"features that are not indicated to be available: ([a-z0-9, ]+)", a)
            if m:
                req_feats = m.group(1).strip()
                second.append((p, r, req_feats))
    xreqs2, xplan2 = [], []
    for (p, r, req_feats) in second:
        line = r.split(";", 3)[3].strip()
        names_ = [x.strip() for x in req_feats.split(",")]
        xreqs2.append(f"cl ; .arch {p[1]} ; .feature {req_feats} ; {line}")
        xplan2.append((p, "exact", req_feats))
        for drop in range(len(names_)):
            rest = names_[:drop] + names_[drop + 1:]
            xreqs2.append(f"cl ; .arch {p[1]} ; .feature {', '.join(rest) if rest else 'none'} ; {line}")
            xplan2.append((p, "minus", names_[drop]))
    xans2 = plug(xreqs2)
    stats["x64_requests"] += len(xreqs2)
    default_ans = {(p[0], p[1]): a for (p, a) in zip(xplan, xans) if p[2] == "all-default"}
    for ((p, kind, what), a, r) in zip(xplan2, xans2, xreqs2):
        d = default_ans.get((p[0], p[1]), "")
        if not d.startswith("ok"):
            continue        # not available in this mode at all
        if kind == "exact":
            if not a.startswith("ok"):
                run.violation("failing-input", {"kind": "x64-rejected-with-required-features", "line": r.split(";", 3)[3].strip()[:40]},
                              f"`{r[3:]}` is rejected although exactly the features the error message asks for are enabled: {a[:100]}", {"stream": "plug", "input": [r], "impl": [a]})
            elif a != d:
                run.violation("failing-input", {"kind": "x64-bytes-depend-on-features", "line": r.split(";", 3)[3].strip()[:40]},
                              f"`{r[3:]}` assembles differently with all features enabled", {"stream": "plug", "input": [r], "impl": [a, d]})
        elif kind == "minus" and a.startswith("ok"):
            run.violation("failing-input", {"kind": "x64-accepted-without-feature", "line": r.split(";", 3)[3].strip()[:40], "feature": what},
                          f"`{r[3:]}` is accepted although feature {what} is disabled", {"stream": "plug", "input": [r], "impl": [a]})
    # `.feature none` judged against the TABLE (not against the implementation's own error message): a line whose mnemonic has no
    # form without required features must be rejected once every feature is disabled
    try:
        xrows = tables.dump("x64")
    except Exception:      # noqa (reported by the table translation step)
        xrows = []
    min_feat = {}
    for r_ in xrows:
        min_feat[r_["m"]] = min(min_feat.get(r_["m"], 1 << 62), 0 if r_["features"] == 0 else 1)
    n_none = 0
    for (p, a, r) in zip(xplan, xans, xreqs):
        if p[2] != "none":
            continue
        words = r.split(";", 3)[3].strip().split()
        prefixes = {"lock", "rep", "repe", "repz", "repne", "repnz", "ss", "cs", "ds", "es", "fs", "gs"}
        mn = next((w for w in words if w not in prefixes), "")
        if min_feat.get(mn) == 1:
            n_none += 1
            if a.startswith("ok"):
                run.violation("failing-input", {"kind": "x64-accepted-without-feature", "line": r.split(";", 3)[3].strip()[:40], "feature": "none"},
                              f"`{r[3:]}` is accepted although every form of `{mn}` requires a feature and none is enabled", {"stream": "plug", "input": [r], "impl": [a]})
                break
    stats["x64_none_must_reject"] = n_none
    # `.feature` REPLACES the feature set: a second directive makes the first one irrelevant (both backends, through the directive itself)
    rreqs, rplan = [], []
    for (p, a, r) in list(zip(xplan, xans, xreqs))[:: max(1, len(xreqs) // 300)]:
        if p[2] == "none":
            line = r.split(";", 3)[3].strip()
            rreqs.append(f"cl ; .arch {p[1]} ; .feature sse2, avx ; .feature none ; {line}")
            rplan.append(("x64", a, r))
    for (p, a, r) in list(zip(plan, answers, reqs))[:: max(1, len(reqs) // 600)]:
        spelled = r.split(".feature", 1)[1].split(";")[0].strip()
        line = r.split(";", 3)[3].strip()
        rreqs.append(f"cl ; .arch {p[1]} ; .feature {all_spelling} ; .feature {spelled} ; {line}")
        rplan.append(("riscv", a, r))
    rans = plug(rreqs)
    stats["replacement_requests"] = len(rreqs)
    for ((arch_, want, single), got, r) in zip(rplan, rans, rreqs):
        if got != want:
            run.violation("failing-input", {"kind": "feature-not-replaced", "arch": arch_},
                          f"`{r[3:]}` answers {got[:80]} but with only the last `.feature` directive ({single[3:]}) the answer is {want[:80]}: a later `.feature` must replace the set",
                          {"stream": "plug", "input": [r, single], "impl": [got, want]})
            break
    # the corpus is all valid x64: everything must be accepted in x64 mode with default features
    for (p, a, r) in zip(xplan, xans, xreqs):
        if p[1] == "x64" and p[2] == "all-default" and a.startswith("panic"):
            run.violation("failing-input", {"kind": "macro-panic", "line": r[3:40]}, f"the macro panics on `{r[3:]}`", {"stream": "plug", "input": [r], "impl": [a]})
    # ---- x86 mode and VEX.W / XOP.W: where W is part of the opcode (FMA, vpermq, ...) the form exists in 32-bit mode (llvm-mc -triple=i386
    # assembles it) and must not be refused as "64 bit operand size"; register-only instantiations, so that no operand asks for 64 bits
    try:
        import x64sweep
        cand = [e for e in x64sweep.table() if x64sweep.flag(e, "WITH_REXW") and (x64sweep.flag(e, "VEX_OP") or x64sweep.flag(e, "XOP_OP"))]
        probes = []
        for e in cand:
            ins = x64sweep.instances(e, "x86")
            if ins and all((o.kind == "reg" and o.fam == "xmm") or o.kind == "imm" for o in ins[0].ops):
                probes.append((e["m"], ins[0].line))
        pans = plug([f"cl ; .arch x86 ; {l}" for (_, l) in probes])
        refused = {}
        for (m, l), a in zip(probes, pans):
            if a.startswith("reject") and "64 bit operand size" in a and x64sweep.assemble("x86", l) is not None:
                refused.setdefault(m, l)
        stats["x86_vex_w_probes"] = len(probes)
        stats["x86_vex_w_refused_but_valid"] = len(refused)
        recorded = set()
        for k in run.known.get("open", []):
            if k.get("property") == "C20" and k.get("match", {}).get("group") == "x86-refuses-vex-w-opcode-forms":
                recorded |= set(k.get("mnemonics", []))
        if set(refused) & recorded:
            m0 = sorted(set(refused) & recorded)[0]
            run.violation("failing-input", {"kind": "x86-refuses-valid-form", "group": "x86-refuses-vex-w-opcode-forms"},
                          f"`.arch x86 ; {refused[m0]}` is refused (64 bit operand size) although the form exists in 32-bit mode", {"stream": "plug", "input": [f"cl ; .arch x86 ; {refused[m0]}"]})
        # the converse: where VEX.W / XOP.W selects a 64-bit GENERAL PURPOSE operand (forms with an r / v / fixed-register slot) it exists in long
        # mode only — in 32-bit mode the processor ignores W and executes the 32-bit instruction (SDM: VPEXTRQ, VPINSRQ, VMOVQ r/m64 … are
        # "V/N.E."). llvm-mc 14 does not enforce this for memory operands, so the rule is stated here. Memory instantiations, as no 64-bit register
        # can be named in x86 mode
        gp = [e for e in cand if any(c in "rv" or "A" <= c <= "P" for (c, _) in x64sweep.slots(e))]
        gprobes = []
        for e in gp:
            for it in x64sweep.instances(e, "x86")[:4]:
                # only lines for which the matcher takes THIS entry (`vmovq xmm, m64` is matched by the W0 form F3 0F 7E first)
                if x64sweep.select(e["m"], it.ops, "x86") == e["i"]:
                    gprobes.append((e["m"], it.line))
        gans = plug([f"cl ; .arch x86 ; {l}" for (_, l) in gprobes])
        stats["x86_vex_w_gp_probes"] = len(gprobes)
        seen_gp = set()
        for (m, l), a in zip(gprobes, gans):
            if a.startswith("ok") and m not in seen_gp and len(seen_gp) < 4:
                seen_gp.add(m)
                run.violation("failing-input", {"kind": "x86-accepts-long-mode-only-form", "mnemonic": m},
                              f"`.arch x86 ; {l}` is accepted ({a[:70]}): VEX.W = 1 selects a 64-bit general purpose operand, which exists in long mode only — a 32-bit processor "
                              f"ignores W and executes the 32-bit instruction", {"stream": "plug", "input": [f"cl ; .arch x86 ; {l}"], "impl": [a]})
        for m in sorted(set(refused) - recorded)[:4]:
            run.violation("failing-input", {"kind": "x86-refuses-valid-form", "mnemonic": m},
                          f"`.arch x86 ; {refused[m]}` is refused (\"Does not support 64 bit operand size in 32-bit mode\") although the form exists in 32-bit mode: "
                          f"llvm-mc -triple=i386 assembles it, VEX.W is part of its opcode", {"stream": "plug", "input": [f"cl ; .arch x86 ; {refused[m]}"]})
    except Exception as e:       # noqa
        run.violation("broken-correspondence", {"kind": "x86-vex-w-probe"}, f"the x86 VEX.W probe could not run: {e}", found_input=False)
    # ---- the known shadowed form(s), re-confirmed on the implementation
    if actual_shadowed is not None:
        for (m, ix) in actual_shadowed:
            probe = None
            if m == "pextrw":
                probe = "cl ; .arch x64 ; .feature sse41 ; pextrw eax, xmm1, 3"
            a = plug([probe])[0] if probe else ""
            if probe and a.startswith("reject"):
                run.violation("failing-input", {"kind": "x64-shadowed-form", "mnemonic": m, "forms": ix},
                              f"`{probe[3:]}` is rejected ({a[:90]}) although form #{ix} of `{m}` only needs the enabled feature: an earlier form with the same operand format shadows it",
                              {"stream": "plug", "input": [probe], "impl": [a]})
            elif probe and a.startswith("ok"):
                # the later form is reachable after all: then the bytes must not depend on what else is enabled
                more = probe.replace(".feature sse41", ".feature sse41, sse2")
                b = plug([more])[0]
                if b != a:
                    run.violation("failing-input", {"kind": "x64-feature-instability", "mnemonic": m},
                                  f"`{probe[3:]}` assembles to {a[:60]} but with one more feature enabled (`{more[3:]}`) to {b[:60]}: enabling more features must never change the bytes of an accepted instruction",
                                  {"stream": "plug", "input": [probe, more], "impl": [a, b]})
            elif not probe:
                run.violation("broken-obligation", {"kind": "x64-shadowed-form", "mnemonic": m, "forms": ix},
                              f"the table has a shadowed form #{ix} of `{m}` (same operand format as an earlier form, different features)", found_input=False)
    if actual_unstable is not None:
        for m in actual_unstable:
            if m not in unstable_seen:
                run.violation("broken-obligation", {"kind": "feature-instability", "mnemonic": m},
                              f"the table predicate lists `{m}` as feature-unstable but the sweep did not exhibit differing bytes", found_input=False)
    run.coverage["evaluations"] = stats.get("riscv_requests", 0) + stats.get("x64_requests", 0) + stats.get("spellings", 0)
    run.coverage["distinct_nontrivial"] = len(by_form)
    run.coverage["rule"] = ("riscv: every form (extract_opmap templates) x {rv32i, rv64i, rv32e, rv64e} x feature sets {none, all, each alternative exactly, each alternative minus each "
                            "single extension}; x64: pinned corpus lines x {x64, x86} x {default, none, exactly the features the rejection names, those minus each}; "
                            "spellings: random extension sets spelled combined / separate / reversed / mixed case / with g. non-trivial = (form, target) pair evaluated")
    run.coverage["traces_validated_against_impl"] = run.coverage["evaluations"]
    run.coverage["distribution"] = dict(stats, model_unstable=actual_unstable, model_shadowed=actual_shadowed)
    run.coverage["samples"] = reqs[:2] + xreqs[:2] + spell_reqs[:2]
    if gen_err is not None:
        found = (len(run.violations) + len(run.known_hit)) > found_before
        run.violation("broken-correspondence", {"kind": "table-translation"}, f"tables / feature data no longer translate: {gen_err}", found_input=found)
    elif not proofs_ok and hasattr(run, "broken_build"):
        found = (len(run.violations) + len(run.known_hit)) > found_before
        run.violation("broken-obligation", {"kind": "lean-build", "first": run.broken_build["first_error"][:160]},
                      f"{run.broken_build['first_error'][:200]} (model lists now: unstable {actual_unstable}, shadowed {actual_shadowed})", run.broken_build, found_input=found)


def replay(path):
    rec = json.load(open(path))
    print(json.dumps({k: rec.get(k) for k in ("property", "kind", "what")}, indent=1))
    inp = rec.get("payload", {}).get("input")
    if not inp:
        print(json.dumps(rec.get("payload", {}), indent=1)[:3000])
        return 1
    common.build_harness("plug")
    rc, out = common.sh([common.PLUG, "exec"], inp="\n".join(inp) + "\n")
    print(out)
    return 0
