"""C18 — splitting or joining dynasm! blocks at line boundaries never changes the result.
Proof: lean/DynasmVerif/Props/C18.lean (fold_preserves_atoms, fold_split_invariant, fold_chunks_le_32).
Tie: harness/plug runs the real parser (`cl`: Vec<Stmt>) and the real `serialize` (`ser`) on random line sequences and on every prefix
partition; the Lean `fold` (driver stream `fold`) is compared with the structure of the real output; the property itself (same bytes,
labels, references, statements in the same order, joined vs split) is evaluated on the implementation's outputs."""
import json
import re

import common
import corpus
from common import SplitMix

MODULES = ["DynasmVerif.Props.C18"]

BYTESTR = re.compile(r'b"((?:[^"\\]|\\.)*)"')


def parse_bytestr(body):
    out = bytearray()
    i = 0
    while i < len(body):
        ch = body[i]
        if ch == "\\":
            n = body[i + 1]
            if n == "x":
                out.append(int(body[i + 2:i + 4], 16))
                i += 4
                continue
            out.append({"0": 0, "n": 10, "r": 13, "t": 9, "\\": 92, '"': 34, "'": 39}[n])
            i += 2
            continue
        out.append(ord(ch))
        i += 1
    return bytes(out)


def atoms_of_stmts(stmts):
    """atoms of a `cl` answer (the statement list before folding): ('b', byte) / ('e', text)"""
    out = []
    for s in stmts:
        k, _, v = s.partition("|")
        if k in ("c1", "c2", "c4", "c8"):
            n = int(k[1])
            out += [("b", b) for b in int(v, 16).to_bytes(n, "little")]
        elif k == "x":
            out += [("b", b) for b in bytes.fromhex(v)]
        else:
            out.append(("e", s))
    return out


CALL = re.compile(r"ops \. (\w+) \((.*?)\) ;")


def split_calls(ser):
    """the generated block `{ ops . m (args) ; … stmt ; }` → list of (method, args text) / ('stmt', text), in order"""
    body = ser.strip()
    if body.startswith("{") and body.endswith("}"):
        body = body[1:-1].strip()
    out = []
    pos = 0
    # split on top-level ` ;` boundaries while respecting parentheses/brackets/braces and string literals
    depth, cur, i, in_str = 0, "", 0, False
    while i < len(body):
        ch = body[i]
        if in_str:
            cur += ch
            if ch == "\\":
                cur += body[i + 1]
                i += 1
            elif ch == '"':
                in_str = False
        elif ch == '"':
            in_str = True
            cur += ch
        elif ch in "([{":
            depth += 1
            cur += ch
        elif ch in ")]}":
            depth -= 1
            cur += ch
        elif ch == ";" and depth == 0:
            if cur.strip():
                out.append(cur.strip())
            cur = ""
        else:
            cur += ch
        i += 1
    if cur.strip():
        out.append(cur.strip())
    return out


def atoms_of_serialized(ser):
    """atoms of the real serialize output and its chunk structure"""
    atoms, structure = [], []
    for call in split_calls(ser):
        m = re.fullmatch(r"ops \. extend \(b\"((?:[^\"\\]|\\.)*)\"\)", call)
        if m:
            bs = parse_bytestr(m.group(1))
            atoms += [("b", b) for b in bs]
            structure.append(("b", bs))
        else:
            atoms.append(("e", call))
            structure.append(("e", call))
    return atoms, structure


def norm_event(stmt_text):
    """map a pre-fold statement (cl rendering) to the generated call text, so that events can be compared by kind and payload"""
    return stmt_text


# ---- line generator


def line_pool(rng, thorough):
    pools = {}
    for d, arch in (("gen_x64", "x64"), ("gen_aarch64", "aarch64"), ("gen_riscv64", "riscv64")):
        c = corpus.load(d)
        const, dyn = [], []
        for (body, bs, _) in c:
            parts = [p.strip() for p in body.split(";") if p.strip()]
            prefix = [p for p in parts if p.startswith(".")]
            line = parts[-1]
            (dyn if re.search(r"\b[A-Z][A-Za-z]*\(\d+\)", line) else const).append((prefix, line))
        pools[arch] = (const, dyn)
    return pools


# riscv lines whose bytes depend on the ACTIVE extension set (pseudo-instructions with an extension-specific single instruction): a
# `.feature` line must replace the set for the lines after it, in one invocation exactly as at the start of a new one
RV_FEATURE_SENSITIVE = [([".feature zbb"], "sext.b x5, x6"), ([".feature i"], "sext.b x5, x6"), ([".feature zbb"], "sext.h x1, x2"), ([".feature i"], "sext.h x1, x2"),
                        ([".feature zbb"], "zext.h x7, x8"), ([".feature i"], "zext.h x7, x8"), ([".feature zba"], "zext.w x9, x10"), ([".feature i"], "zext.w x9, x10"),
                        ([".feature zbb"], "clz x3, x4"), ([".feature zba"], "sh1add x3, x4, x5"), ([".feature m"], "mul x3, x4, x5"), ([".feature i"], "add x3, x4, x5")]


def gen_feature_program(rng):
    lines = []
    for _ in range(rng.range(2, 8)):
        c = rng.below(10)
        if c < 7:
            lines.append(rng.choice(RV_FEATURE_SENSITIVE))
        elif c < 8:
            lines.append(([], f"l{rng.below(3)}:"))
        elif c < 9:
            lines.append(([".feature i"], f"j {rng.choice(['>l0', '<l1'])}"))
        else:
            lines.append(([], f"; let off{rng.below(9)} = ops.offset()"))
    return "riscv64", lines


def gen_align_program(rng, pools):
    """the same alignment requested twice with nothing but labels and plain Rust statements in between: a Rust statement may emit code
    through the assembler, so the second request is NOT redundant and must reach the generated code joined exactly as split"""
    arch = rng.choice(["x64", "aarch64", "riscv64"])
    const, _ = pools[arch]
    lines = []
    for _ in range(rng.range(0, 2)):
        lines.append(rng.choice(const))
    for _ in range(rng.range(1, 3)):
        n = rng.choice([2, 4, 8, 16])
        lines.append(([], f".align {n}"))
        for _ in range(rng.range(1, 3)):
            lines.append(([], rng.choice([f"; let off{rng.below(9)} = ops.offset()", "; emit_template(ops)", f"l{rng.below(3)}:", "; ops.push(0x90)"])))
        lines.append(([], f".align {n}"))
        if rng.below(2):
            lines.append(rng.choice(const))
    return arch, lines


def gen_program(rng, pools):
    if rng.below(10) == 0:
        return gen_feature_program(rng)
    if rng.below(12) == 0:
        return gen_align_program(rng, pools)
    arch = rng.choice(["x64", "x64", "aarch64", "riscv64"])
    const, dyn = pools[arch]
    lines = []
    prefix_feat = None
    n = rng.range(2, 14)
    for _ in range(n):
        c = rng.below(100)
        if c < 45 and const:
            pre, l = rng.choice(const)
            lines.append((pre, l))
        elif c < 55 and dyn:
            pre, l = rng.choice(dyn)
            lines.append((pre, l))
        elif c < 62:
            lines.append(([], f"l{rng.below(3)}:"))
        elif c < 66:
            lines.append(([], f"->g{rng.below(3)}:"))
        elif c < 69:
            lines.append(([], f"=>dynlabel{rng.below(2)}"))
        elif c < 76:
            tgt = rng.choice([">l0", "<l1", "->g0", "=>dynlabel0"])
            ins = {"x64": f"jmp {tgt}", "aarch64": f"b {tgt}", "riscv64": f"j {tgt}"}[arch]
            lines.append(([".feature i"] if arch == "riscv64" else [], ins))
        elif c < 84:
            k = rng.choice([".u8", ".u16", ".u32", ".u64", ".i8", ".i32"])
            vals = ", ".join(str(rng.below(100)) for _ in range(rng.range(1, 4)))
            lines.append(([], f"{k} {vals}"))
        elif c < 88:
            lines.append(([], f".align {rng.choice([2, 4, 8, 16])}"))
        elif c < 91:
            lines.append(([], ".bytes some_iter"))
        elif c < 94:
            lines.append(([], f".u32 runtime_value + {rng.below(9)}"))
        else:
            lines.append(([], f"; let off{rng.below(9)} = ops.offset()"))
    return arch, lines


def render(arch, lines):
    """one invocation body: the architecture directive, then each line preceded by the feature directive it needs"""
    out = [f"; .arch {arch}"]
    cur_feat = None
    for (pre, l) in lines:
        feat = next((p for p in pre if p.startswith(".feature")), None)
        if feat and feat != cur_feat:
            out.append("; " + feat)
            cur_feat = feat
        out.append("; " + l)
    return " ".join(out)


def plug(reqs):
    rc, out = common.sh([common.PLUG, "exec"], inp="\n".join(reqs) + "\n")
    return [a for (_, a) in common.answers_of_impl(out)]


def check(run):
    rng = SplitMix(run.seed)
    thorough = run.tier == "thorough"
    common.base_trusted(run)
    run.coverage["trusted_base"] += ["harness/plug (real parser and real serialize, run as a library)", "lib/c18.py (re-parses the generated method calls; byte-string literal parser)",
                                     "the abstraction of Stmt to constant bytes / opaque event"]
    run.assumptions += ["architecture and feature directives are repeated at the start of every split invocation (as the property states)",
                        "execution of `;;` statements in source order is read off the order of the generated code; it is not executed here"]
    ok, log = common.build_harness("plug")
    if not ok:
        run.violation("broken-correspondence", {"kind": "harness-build"}, "harness/plug does not build against the working tree", {"log": log[-3000:]}, found_input=False)
        return
    proofs_ok = common.standard_proof_step(run, MODULES, allow_bv_decide=False)
    found_before = len(run.violations) + len(run.known_hit)
    if not proofs_ok and hasattr(run, "broken_build"):
        ok2, _ = common.lake_build(["driver"])
        if not ok2:
            run.violation("broken-obligation", {"kind": "lean-build"}, run.broken_build["first_error"], run.broken_build, found_input=False)
            return
    pools = line_pool(rng, thorough)
    n_prog = 10000 if thorough else 600
    reqs, plan = [], []
    progs = []
    for pi in range(n_prog):
        arch, lines = gen_program(rng, pools)
        progs.append((arch, lines))
        joined = render(arch, lines)
        reqs.append("cl " + joined)
        plan.append((pi, "cl-joined", None))
        reqs.append("ser " + joined)
        plan.append((pi, "ser-joined", None))
        cuts_list = [[k] for k in range(1, len(lines))] if thorough else []
        for _ in range(8 if thorough else 4):
            k = rng.range(1, max(1, len(lines) - 1))
            cuts = sorted(set(rng.range(1, len(lines) - 1) for _ in range(rng.range(1, 3)))) if len(lines) > 2 else [1]
            cuts_list.append(cuts)
        seen_cuts = set()
        for cuts in cuts_list:
            if tuple(cuts) in seen_cuts or not cuts or cuts[-1] >= len(lines):
                continue
            seen_cuts.add(tuple(cuts))
            bounds = [0] + cuts + [len(lines)]
            for a, b in zip(bounds, bounds[1:]):
                if a >= b:
                    continue
                part = render(arch, lines[a:b])
                reqs.append("ser " + part)
                plan.append((pi, "ser-part", tuple(cuts)))
                reqs.append("cl " + part)
                plan.append((pi, "cl-part", tuple(cuts)))
    chunks = [reqs[i:i + 4000] for i in range(0, len(reqs), 4000)]
    answers = [a for part in common.parallel_map(plug, chunks) for a in part]
    stats = {"programs": n_prog, "requests": len(reqs), "partitions": 0, "fold_compared": 0, "skipped_rejected": 0}
    if len(answers) != len(reqs):
        run.violation("broken-correspondence", {"kind": "plug-crash"}, f"harness/plug answered {len(answers)} of {len(reqs)} requests", found_input=False)
        return
    by_prog = {}
    for (p, a, r) in zip(plan, answers, reqs):
        by_prog.setdefault(p[0], []).append((p, a, r))
    fold_reqs, fold_expect = [], []
    reported = 0
    nontrivial = 0
    for pi, items in by_prog.items():
        cl_j = next(a for (p, a, r) in items if p[1] == "cl-joined")
        ser_j = next(a for (p, a, r) in items if p[1] == "ser-joined")
        req_j = next(r for (p, a, r) in items if p[1] == "ser-joined")
        if not cl_j.startswith("ok ") or not ser_j.startswith("ok "):
            if cl_j.startswith("panic") or ser_j.startswith("panic"):
                run.violation("failing-input", {"kind": "macro-panic"}, f"the macro panics on `{req_j[4:120]}`", {"stream": "plug", "input": [req_j], "impl": [ser_j]})
            stats["skipped_rejected"] += 1
            continue
        stmts = json.loads(cl_j[3:])
        want = atoms_of_stmts(stmts)
        got, structure = atoms_of_serialized(json.loads(ser_j[3:]))
        # (1) folding preserves the byte / event sequence (events compared by position and count; bytes exactly)
        wb = [x if x[0] == "b" else ("e",) for x in want]
        gb = [x if x[0] == "b" else ("e",) for x in got]
        if wb != gb and reported < 4:
            reported += 1
            k = next((i for i in range(min(len(wb), len(gb))) if wb[i] != gb[i]), min(len(wb), len(gb)))
            run.violation("failing-input", {"kind": "fold-moves-bytes"},
                          f"serialize changes the order of emissions for `{req_j[4:160]}`: position {k}: statements give {want[k] if k < len(want) else None}, generated code does {got[k] if k < len(got) else None}",
                          {"stream": "plug", "input": [req_j, "cl" + req_j[3:]], "impl": [ser_j, cl_j]})
        # (2) model fold vs real chunk structure
        enc = []
        for s in stmts:
            k, _, v = s.partition("|")
            if k in ("c1", "c2", "c4", "c8"):
                enc.append("b:" + int(v, 16).to_bytes(int(k[1]), "little").hex())
            elif k == "x":
                enc.append("b:" + v)
            else:
                enc.append("e:1")
        fold_reqs.append("f " + " ".join(enc))
        fold_expect.append((" ".join(("b:" + s[1].hex()) if s[0] == "b" else "e:1" for s in structure), req_j))
        # (3) joined vs every split
        parts = {}
        for (p, a, r) in items:
            if p[1] == "ser-part":
                parts.setdefault(p[2], []).append((a, r))
        if any(l.split()[0] in ("jmp", "b", "j") or l.endswith(":") or l.startswith("=>") or l.startswith("; let") for (_, l) in progs[pi][1]):
            nontrivial += 1
        for cuts, lst in parts.items():
            stats["partitions"] += 1
            if not all(a.startswith("ok ") for (a, r) in lst):
                continue
            cat = []
            for (a, r) in lst:
                cat += atoms_of_serialized(json.loads(a[3:]))[0]
            if cat != got and reported < 4:
                reported += 1
                k = next((i for i in range(min(len(cat), len(got))) if cat[i] != got[i]), min(len(cat), len(got)))
                run.violation("failing-input", {"kind": "split-differs"},
                              f"cutting `{req_j[4:120]}…` after lines {list(cuts)} changes what is emitted: item {k} is {got[k] if k < len(got) else None} joined but {cat[k] if k < len(cat) else None} split",
                              {"stream": "plug", "input": [req_j] + [r for (a, r) in lst], "impl": [ser_j] + [a for (a, r) in lst]})
    # model fold on all statement lists at once
    rc, out = common.run_model("hdr fold 1\n" + "\n".join(fold_reqs) + "\n")
    model = common.answers_of_model(out)[1:]
    stats["fold_compared"] = len(fold_reqs)
    if len(model) != len(fold_reqs):
        run.violation("broken-correspondence", {"kind": "driver"}, f"driver answered {len(model)} of {len(fold_reqs)} fold requests", found_input=False)
    else:
        for (m, (e, rj), fr) in zip(model, fold_expect, fold_reqs):
            if m != e:
                # the real pass chunks differently from the model: is the property still true of it? (1) above already decided that
                run.violation("broken-correspondence", {"kind": "fold-model-differs"},
                              f"the model of the folding pass and the real serialize chunk `{rj[4:100]}` differently: model `{m[:80]}` / real `{e[:80]}`",
                              {"stream": "fold", "input": ["hdr fold 1", fr, rj], "model": [m], "impl": [e]}, found_input=reported > 0)
                break
    run.coverage["evaluations"] = len(reqs)
    run.coverage["distinct_nontrivial"] = nontrivial
    run.coverage["rule"] = ("random line sequences (2-14 lines) mixing constant instructions of x64/aarch64/riscv64 (pinned corpus lines), runtime-valued instructions, local/global/dynamic "
                            "labels, references, data/align/bytes directives, runtime-valued data and `;;` statements; each sequence joined and cut at 4 random (thorough: every single + 8 random) "
                            "partitions. non-trivial = sequence containing a label, reference or statement")
    run.coverage["traces_validated_against_impl"] = len(reqs)
    run.coverage["distribution"] = stats
    run.coverage["samples"] = [reqs[0][:300], reqs[1][:300]]
    if not proofs_ok and hasattr(run, "broken_build"):
        found = (len(run.violations) + len(run.known_hit)) > found_before
        run.violation("broken-obligation", {"kind": "lean-build", "first": run.broken_build["first_error"][:200]}, run.broken_build["first_error"], run.broken_build, found_input=found)


def replay(path):
    rec = json.load(open(path))
    print(json.dumps({k: rec.get(k) for k in ("property", "kind", "what")}, indent=1))
    inp = rec.get("payload", {}).get("input")
    if not inp:
        print(json.dumps(rec.get("payload", {}), indent=1)[:3000])
        return 1
    common.build_harness("plug")
    rc, out = common.sh([common.PLUG, "exec"], inp="\n".join(i for i in inp if not i.startswith(("hdr", "f "))) + "\n")
    print(out)
    return 0
