"""T-bits translator for the Rust expressions the dynasm! macro GENERATES for runtime operands (the text of Stmt::ExprUnsigned as
printed by harness/plug): tokenizer + parser for the subset that occurs, symbolic execution into a small bit-vector IR, a Python
evaluator of the IR (validated against rustc through harness/dyn on every run) and a printer of the IR as Lean `BitVec` terms.

The generated code is straight-line: `let` bindings, compound assignments, `if <cond> { <panic call> ; }` guards, one final value.
Symbolic execution therefore yields (panic condition, value) — `panic` is the disjunction of all guards and, when `checked`
(debug / overflow-checks builds), of every arithmetic overflow; the order of evaluation only decides WHICH panic fires.

Anything outside the subset raises Untranslatable: the caller counts the form as 'covered by execution only', never guesses."""
import re


class Untranslatable(Exception):
    pass


# ----------------------------------------------------------------------------------------------- IR
class N:
    """IR node: op, args, width (0 = Bool)"""
    __slots__ = ("op", "a", "w", "k")

    def __init__(self, op, a=(), w=0, k=None):
        self.op, self.a, self.w, self.k = op, tuple(a), w, k

    def __repr__(self):
        return f"{self.op}{self.w}({self.k if self.k is not None else ''}{','.join(map(repr, self.a))})"


def const(v, w): return N("const", (), w, v & ((1 << w) - 1))
def var(name, w): return N("var", (), w, name)
def btrue(): return N("bconst", (), 0, True)
def bfalse(): return N("bconst", (), 0, False)


def bor(x, y):
    if x.op == "bconst":
        return y if not x.k else x
    if y.op == "bconst":
        return x if not y.k else y
    return N("bor", (x, y), 0)


def band(x, y):
    if x.op == "bconst":
        return y if x.k else x
    if y.op == "bconst":
        return x if y.k else y
    return N("band", (x, y), 0)


def bnot(x):
    if x.op == "bconst":
        return N("bconst", (), 0, not x.k)
    return N("bnot", (x,), 0)


def sx(v, w):
    v &= (1 << w) - 1
    return v - (1 << w) if v >> (w - 1) else v


def ev(n, env, ext=None):
    """evaluate an IR node; env: name → int; ext: name → python function for external calls"""
    op, a, w = n.op, n.a, n.w
    m = (1 << w) - 1 if w else 1
    if op == "const" or op == "bconst":
        return n.k
    if op == "var":
        return env[n.k] & m
    if op == "bor":
        return ev(a[0], env, ext) or ev(a[1], env, ext)
    if op == "band":
        return ev(a[0], env, ext) and ev(a[1], env, ext)
    if op == "bnot":
        return not ev(a[0], env, ext)
    if op == "ite":
        return ev(a[1], env, ext) if ev(a[0], env, ext) else ev(a[2], env, ext)
    x = ev(a[0], env, ext)
    if op == "popc":
        return bin(x).count("1") & m
    if op == "not":
        return ~x & m
    if op == "neg":
        return -x & m
    if op == "zext":
        return x
    if op == "sext":
        return sx(x, a[0].w) & m
    if op == "trunc":
        return x & m
    if op == "ext":
        return ext[n.k](x) & m if w else bool(ext[n.k](x))
    if op == "ctz":
        return (a[0].w if x == 0 else (x & -x).bit_length() - 1) & m
    y = ev(a[1], env, ext)
    if op == "and":
        return x & y
    if op == "or":
        return x | y
    if op == "xor":
        return x ^ y
    if op == "add":
        return (x + y) & m
    if op == "sub":
        return (x - y) & m
    if op == "mul":
        return (x * y) & m
    if op == "shl":
        return (x << y) & m if y < w else 0
    if op == "lshr":
        return x >> y if y < w else 0
    if op == "ashr":
        return (sx(x, w) >> min(y, w - 1)) & m
    if op == "eq":
        return x == y
    if op == "ult":
        return x < y
    if op == "ule":
        return x <= y
    if op == "slt":
        return sx(x, a[0].w) < sx(y, a[0].w)
    if op == "sle":
        return sx(x, a[0].w) <= sx(y, a[0].w)
    if op == "udiv":
        return (x // y) & m if y else 0
    if op in ("rotl", "rotr"):
        ww = a[0].w
        k = y % ww
        if op == "rotr":
            k = (ww - k) % ww
        return ((x << k) | (x >> ((ww - k) % ww if k else 0))) & ((1 << ww) - 1) if k else x
    raise Untranslatable(f"IR op {op}")


def fold(n):
    """constant folding (bottom-up); keeps the IR small and the Lean terms literal where the Rust is literal"""
    if not n.a:
        return n
    a = tuple(fold(x) for x in n.a)
    m = N(n.op, a, n.w, n.k)
    if n.op not in ("ext",) and all(x.op in ("const", "bconst") for x in a):
        v = ev(m, {})
        return N("bconst", (), 0, bool(v)) if n.w == 0 else const(v, n.w)
    if n.op == "bor":
        return bor(a[0], a[1])
    if n.op == "band":
        return band(a[0], a[1])
    if n.op == "bnot":
        return bnot(a[0])
    if n.op == "ite" and a[0].op == "bconst":
        return a[1] if a[0].k else a[2]
    return m


def lean(n, ext_names=None):
    """IR → Lean term (BitVec w / Bool)"""
    op, a, w = n.op, n.a, n.w
    L = lambda k: lean(a[k], ext_names)
    if op == "const":
        return f"({n.k}#{w})"
    if op == "bconst":
        return "true" if n.k else "false"
    if op == "var":
        return n.k
    if op == "bor":
        return f"({L(0)} || {L(1)})"
    if op == "band":
        return f"({L(0)} && {L(1)})"
    if op == "bnot":
        return f"(!{L(0)})"
    if op == "ite":
        return f"(if {L(0)} then {L(1)} else {L(2)})"
    if op == "not":
        return f"(~~~{L(0)})"
    if op == "neg":
        return f"(-{L(0)})"
    if op == "zext":
        return f"({L(0)}.zeroExtend {w})"
    if op == "sext":
        return f"({L(0)}.signExtend {w})"
    if op == "trunc":
        return f"({L(0)}.truncate {w})"
    if op == "ext":
        return f"({(ext_names or {}).get(n.k, n.k)} {L(0)})"
    if op == "ctz":
        return f"((DynasmVerif.A64Imm.W{a[0].w}.ctz {L(0)}).zeroExtend {w})"
    if op == "popc":
        return f"((DynasmVerif.A64Imm.L{a[0].w}.popc {L(0)}).zeroExtend {w})"
    if op == "rotl":
        return f"(DynasmVerif.A64Imm.L{a[0].w}.rotl {L(0)} ({L(1)}.truncate 8))"
    if op == "rotr":
        if a[1].op == "const" and a[1].k == 1:
            return f"(DynasmVerif.A64Imm.L{a[0].w}.rotr1 {L(0)})"
        raise Untranslatable("rotate_right by a variable amount")
    if op == "udiv":
        return f"({L(0)} / {L(1)})"
    sym = {"and": "&&&", "or": "|||", "xor": "^^^", "add": "+", "sub": "-", "mul": "*"}
    if op in sym:
        return f"({L(0)} {sym[op]} {L(1)})"
    if op in ("shl", "lshr", "ashr"):
        f = {"shl": "<<<", "lshr": ">>>"}.get(op)
        amount = str(a[1].k) if a[1].op == "const" else f"{L(1)}"
        if op == "ashr":
            return f"({L(0)}.sshiftRight {amount})" if a[1].op == "const" else f"({L(0)}.sshiftRight' {amount})"
        return f"({L(0)} {f} {amount})"
    if op == "eq":
        return f"({L(0)} == {L(1)})"
    if op in ("ult", "ule", "slt", "sle"):
        return f"({L(0)}.{op} {L(1)})"
    raise Untranslatable(f"IR op {op}")


# ----------------------------------------------------------------------------------------------- tokenizer / parser
TOKEN = re.compile(r"\s*(0[xX][0-9a-fA-F_]+[a-z0-9]*|0[bB][01_]+[a-z0-9]*|[0-9][0-9_]*(?:\.[0-9]+)?[a-z0-9]*|[A-Za-z_][A-Za-z0-9_]*|<<=|>>=|\|\||&&|==|!=|<=|>=|<<|>>|::|=>|\|=|&=|\^=|\+=|-=|[-+*/%&|^!<>=(){}\[\],;:.#])")
TYPES = {"u8": (8, False), "u16": (16, False), "u32": (32, False), "u64": (64, False), "usize": (64, False),
         "i8": (8, True), "i16": (16, True), "i32": (32, True), "i64": (64, True), "isize": (64, True), "f32": (32, False), "bool": (0, False)}


def tokenize(s):
    out, pos = [], 0
    s = s.strip()
    while pos < len(s):
        m = TOKEN.match(s, pos)
        if not m:
            raise Untranslatable(f"token at {s[pos:pos + 20]!r}")
        out.append(m.group(1))
        pos = m.end()
    return out


class P:
    def __init__(self, toks):
        self.t, self.i = toks, 0

    def peek(self, k=0):
        return self.t[self.i + k] if self.i + k < len(self.t) else None

    def eat(self, x=None):
        tok = self.peek()
        if x is not None and tok != x:
            raise Untranslatable(f"expected {x!r}, found {tok!r} at {self.i}")
        self.i += 1
        return tok

    # expression grammar -----------------------------------------------------------------------
    def expr(self):
        return self.lor()

    def lor(self):
        x = self.land()
        while self.peek() == "||":
            self.eat()
            x = ("lor", x, self.land())
        return x

    def land(self):
        x = self.cmp()
        while self.peek() == "&&":
            self.eat()
            x = ("land", x, self.cmp())
        return x

    def cmp(self):
        x = self.bitor()
        if self.peek() in ("==", "!=", "<", ">", "<=", ">="):
            op = self.eat()
            x = ("cmp", op, x, self.bitor())
        return x

    def bitor(self):
        x = self.bitxor()
        while self.peek() == "|":
            self.eat()
            x = ("bin", "|", x, self.bitxor())
        return x

    def bitxor(self):
        x = self.bitand()
        while self.peek() == "^":
            self.eat()
            x = ("bin", "^", x, self.bitand())
        return x

    def bitand(self):
        x = self.shift()
        while self.peek() == "&":
            self.eat()
            x = ("bin", "&", x, self.shift())
        return x

    def shift(self):
        x = self.addsub()
        while self.peek() in ("<<", ">>"):
            op = self.eat()
            x = ("bin", op, x, self.addsub())
        return x

    def addsub(self):
        x = self.mul()
        while self.peek() in ("+", "-"):
            op = self.eat()
            x = ("bin", op, x, self.mul())
        return x

    def mul(self):
        x = self.cast()
        while self.peek() in ("*", "/", "%"):
            op = self.eat()
            x = ("bin", op, x, self.cast())
        return x

    def cast(self):
        x = self.unary()
        while self.peek() == "as":
            self.eat()
            x = ("as", x, self.eat())
        return x

    def unary(self):
        if self.peek() in ("-", "!"):
            op = self.eat()
            return ("un", op, self.unary())
        if self.peek() == "&":
            self.eat()
            return self.unary()
        return self.postfix()

    def postfix(self):
        x = self.primary()
        while True:
            if self.peek() == ".":
                self.eat()
                name = self.eat()
                if self.peek() == "(":
                    x = ("method", x, name, self.args())
                else:
                    x = ("field", x, name)
            elif self.peek() == "(" and x[0] == "path":
                x = ("call", x[1], self.args())
            else:
                return x

    def args(self):
        self.eat("(")
        out = []
        while self.peek() != ")":
            out.append(self.closure_or_expr())
            if self.peek() == ",":
                self.eat()
        self.eat(")")
        return out

    def closure_or_expr(self):
        if self.peek() == "||":
            self.eat()
            return ("closure", [], self.expr())
        if self.peek() == "|":
            self.eat()
            params = []
            while self.peek() != "|":
                tok = self.eat()
                if tok not in ("&", ",", "mut"):
                    params.append(tok)
            self.eat("|")
            return ("closure", params, self.expr())
        return self.expr()

    def primary(self):
        tok = self.peek()
        if tok == "(":
            self.eat()
            x = self.expr()
            self.eat(")")
            return x
        if tok == "{":
            return self.block()
        if tok == "[":
            self.eat()
            items = []
            while self.peek() != "]":
                items.append(self.expr())
                if self.peek() == ",":
                    self.eat()
            self.eat("]")
            return ("array", items)
        if tok == "if":
            return self.if_()
        if tok is not None and re.match(r"[0-9]", tok):
            self.eat()
            return ("lit", tok)
        if tok == "::" or (tok is not None and re.match(r"[A-Za-z_]", tok)):
            parts = []
            if tok == "::":
                self.eat()
            parts.append(self.eat())
            while self.peek() == "::":
                self.eat()
                parts.append(self.eat())
            return ("path", parts)
        raise Untranslatable(f"unexpected token {tok!r}")

    def if_(self):
        self.eat("if")
        c = self.expr_no_block()
        then = self.block()
        els = None
        if self.peek() == "else":
            self.eat()
            els = self.if_() if self.peek() == "if" else self.block()
        return ("if", c, then, els)

    def expr_no_block(self):
        # conditions never start with `{` in the generated code
        return self.expr()

    def block(self):
        self.eat("{")
        stmts, final = [], None
        while self.peek() != "}":
            if self.peek() == ";":
                self.eat()
                continue
            if self.peek() == "let":
                self.eat()
                if self.peek() == "mut":
                    self.eat()
                name = self.eat()
                ty = None
                if self.peek() == ":":
                    self.eat()
                    ty = self.eat()
                self.eat("=")
                e = self.expr()
                self.eat(";")
                stmts.append(("let", name, ty, e))
                continue
            if re.match(r"[A-Za-z_]", self.peek() or "") and self.peek(1) in ("|=", "&=", "^=", "+=", "-=", "<<=", ">>=", "="):
                name = self.eat()
                op = self.eat()
                e = self.expr()
                self.eat(";")
                stmts.append(("assign", name, op, e))
                continue
            e = self.expr()
            if self.peek() == ";":
                self.eat()
                stmts.append(("expr", e))
            elif self.peek() == "}":
                final = e
            elif e[0] == "if":
                stmts.append(("expr", e))
            else:
                raise Untranslatable(f"statement end at {self.peek()!r}")
        self.eat("}")
        return ("block", stmts, final)


def parse(text):
    p = P(tokenize(text))
    e = p.expr()
    if p.peek() is not None:
        raise Untranslatable(f"trailing tokens {p.t[p.i:p.i + 5]}")
    return e


# ----------------------------------------------------------------------------------------------- symbolic execution
class Val:
    """node + Rust type (width, signed); ty None = unsuffixed integer literal"""
    def __init__(self, node, ty, lit=None):
        self.n, self.ty, self.lit = node, ty, lit


PANICS = ("immediate_out_of_range_unsigned_32", "immediate_out_of_range_signed_32", "immediate_out_of_range_unsigned_64", "immediate_out_of_range_signed_64",
          "immediate_out_of_range_unsigned_f32", "invalid_register", "panic")
EXTERNAL = {"encode_logical_immediate_32bit": ("logical32", 32, 16), "encode_logical_immediate_64bit": ("logical64", 64, 16),
            "encode_floating_point_immediate": ("float", 32, 8)}


class Sym:
    def __init__(self, variables, checked):
        """variables: name → rust type name"""
        self.env = {name: Val(var(name, TYPES[t][0]), TYPES[t]) for name, t in variables.items()}
        self.checked = checked
        self.panic = bfalse()
        self.path = btrue()

    def add_panic(self, cond):
        self.panic = bor(self.panic, band(self.path, cond))

    def lit(self, tok):
        m = re.fullmatch(r"(0[xX][0-9a-fA-F_]+|0[bB][01_]+|[0-9][0-9_]*)([a-z][a-z0-9]*)?", tok)
        if not m:
            raise Untranslatable(f"literal {tok}")
        v = int(m.group(1).replace("_", ""), 0)
        if m.group(2):
            ty = TYPES.get(m.group(2))
            if ty is None:
                raise Untranslatable(f"literal suffix {tok}")
            return Val(const(v, ty[0]), ty)
        return Val(None, None, v)

    def coerce(self, v, ty):
        if v.ty is None:
            return Val(const(v.lit, ty[0]), ty)
        return v

    def unify(self, x, y):
        if x.ty is None and y.ty is None:
            x = self.coerce(x, TYPES["i32"])
        if x.ty is None:
            x = self.coerce(x, y.ty)
        if y.ty is None:
            y = self.coerce(y, x.ty)
        if x.ty[0] != y.ty[0]:
            raise Untranslatable(f"operand widths {x.ty} vs {y.ty}")
        return x, y

    def run(self, e):
        k = e[0]
        if k == "lit":
            return self.lit(e[1])
        if k == "path":
            name = e[1][-1]
            if len(e[1]) == 1 and name in self.env:
                return self.env[name]
            raise Untranslatable(f"free name {'::'.join(e[1])}")
        if k == "block":
            saved = dict(self.env)
            for st in e[1]:
                if st[0] == "let":
                    v = self.run(st[3])
                    if st[2] is not None:
                        ty = TYPES.get(st[2])
                        if ty is None:
                            raise Untranslatable(f"type {st[2]}")
                        v = self.coerce(v, ty)
                        if v.ty[0] != ty[0]:
                            raise Untranslatable(f"let {st[1]}: {st[2]} = value of width {v.ty[0]}")
                        v = Val(v.n, ty)
                    self.env[st[1]] = v
                elif st[0] == "assign":
                    cur = self.env[st[1]]
                    rhs = self.run(st[3])
                    self.env[st[1]] = rhs if st[2] == "=" else self.binop(st[2][:-1], cur, rhs)
                else:
                    self.run(st[1])
            out = self.run(e[2]) if e[2] is not None else None
            for name in list(self.env):
                if name not in saved:
                    del self.env[name]
                else:
                    # assignments to outer variables do not occur in the generated code
                    self.env[name] = saved[name]
            return out
        if k == "if":
            c = self.run(e[1])
            if c.ty != TYPES["bool"]:
                raise Untranslatable("if condition is not a bool")
            if e[3] is not None:
                raise Untranslatable("if/else with values")
            saved = self.path
            self.path = band(self.path, c.n)
            r = self.run(e[2])
            self.path = saved
            if r is not None and r.ty != "never":
                raise Untranslatable("if block with a value")
            return None
        if k == "call":
            name = e[1][-1]
            if name in PANICS:
                for a in e[2]:
                    self.run(a)
                self.add_panic(btrue())
                return Val(None, "never")
            if name in EXTERNAL:
                tag, w, ow = EXTERNAL[name]
                a = self.coerce(self.run(e[2][0]), (w, False))
                return Val((N("ext", (a.n,), 0, tag + ".ok"), N("ext", (a.n,), ow, tag + ".val")), "option")
            raise Untranslatable(f"call {name}")
        if k == "method":
            return self.method(e)
        if k == "as":
            v = self.run(e[1])
            ty = TYPES.get(e[2])
            if ty is None:
                raise Untranslatable(f"cast to {e[2]}")
            if v.ty is None:
                return Val(const(v.lit, ty[0]), ty)
            if v.ty == TYPES["bool"]:
                return Val(N("ite", (v.n, const(1, ty[0]), const(0, ty[0])), ty[0]), ty)
            w0, s0 = v.ty
            if ty[0] == w0:
                return Val(v.n, ty)
            if ty[0] < w0:
                return Val(N("trunc", (v.n,), ty[0]), ty)
            return Val(N("sext" if s0 else "zext", (v.n,), ty[0]), ty)
        if k == "un":
            if e[1] == "-" and e[2][0] == "lit":
                # `-2147483648i32`: the negation of a literal is a literal (rustc accepts the minimum value this way)
                lv = self.lit(e[2][1])
                if lv.ty is None:
                    return Val(None, None, -lv.lit)
                return Val(const(-lv.n.k, lv.ty[0]), lv.ty)
            v = self.run(e[2])
            if e[1] == "-":
                if v.ty is None:
                    return Val(None, None, -v.lit)
                if self.checked and v.ty[1]:
                    self.add_panic(N("eq", (v.n, const(1 << (v.ty[0] - 1), v.ty[0])), 0))
                return Val(N("neg", (v.n,), v.ty[0]), v.ty)
            if v.ty == TYPES["bool"]:
                return Val(bnot(v.n), v.ty)
            if v.ty is None:
                raise Untranslatable("`!` on an untyped literal")
            return Val(N("not", (v.n,), v.ty[0]), v.ty)
        if k == "bin":
            return self.binop(e[1], self.run(e[2]), self.run(e[3]))
        if k == "cmp":
            x, y = self.unify(self.run(e[2]), self.run(e[3]))
            op = e[1]
            s = x.ty[1]
            if x.ty == TYPES["bool"]:
                raise Untranslatable("comparison of bools")
            lt, le = ("slt", "sle") if s else ("ult", "ule")
            n = {"==": lambda: N("eq", (x.n, y.n), 0), "!=": lambda: bnot(N("eq", (x.n, y.n), 0)), "<": lambda: N(lt, (x.n, y.n), 0),
                 "<=": lambda: N(le, (x.n, y.n), 0), ">": lambda: N(lt, (y.n, x.n), 0), ">=": lambda: N(le, (y.n, x.n), 0)}[op]()
            return Val(n, TYPES["bool"])
        if k in ("lor", "land"):
            x = self.run(e[1])
            # the right operand is only evaluated when needed: its panics (overflow) are conditional
            saved = self.path
            self.path = band(self.path, bnot(x.n) if k == "lor" else x.n)
            y = self.run(e[2])
            self.path = saved
            return Val(bor(x.n, y.n) if k == "lor" else band(x.n, y.n), TYPES["bool"])
        raise Untranslatable(f"expression kind {k}")

    def binop(self, op, x, y):
        if op in ("<<", ">>"):
            if x.ty is None:
                x = self.coerce(x, TYPES["i32"])
            w, s = x.ty
            if y.ty is None:
                amount = const(y.lit, w)
            else:
                amount = y.n if y.ty[0] == w else N("zext" if y.ty[0] < w else "trunc", (y.n,), w)
            if self.checked and not (amount.op == "const" and amount.k < w):
                self.add_panic(bnot(N("ult", (amount, const(w, w)), 0)))
            return Val(N("shl" if op == "<<" else ("ashr" if s else "lshr"), (x.n, amount), w), x.ty)
        x, y = self.unify(x, y)
        w, s = x.ty
        if x.ty == TYPES["bool"]:
            if op == "|":
                return Val(bor(x.n, y.n), x.ty)
            if op == "&":
                return Val(band(x.n, y.n), x.ty)
            raise Untranslatable(f"bool {op}")
        if op in ("&", "|", "^"):
            return Val(N({"&": "and", "|": "or", "^": "xor"}[op], (x.n, y.n), w), x.ty)
        if op in ("+", "-", "*"):
            name = {"+": "add", "-": "sub", "*": "mul"}[op]
            r = N(name, (x.n, y.n), w)
            if self.checked:
                self.add_panic(self.overflow(name, x, y, r))
            return Val(r, x.ty)
        raise Untranslatable(f"operator {op}")

    def overflow(self, name, x, y, r):
        w, s = x.ty
        if name == "mul":
            wide = N("mul", (N("sext" if s else "zext", (x.n,), 2 * w), N("sext" if s else "zext", (y.n,), 2 * w)), 2 * w)
            back = N("sext" if s else "zext", (r,), 2 * w)
            return bnot(N("eq", (wide, back), 0))
        if not s:
            return N("ult", (r, x.n), 0) if name == "add" else N("ult", (x.n, y.n), 0)
        wide = N(name, (N("sext", (x.n,), w + 1), N("sext", (y.n,), w + 1)), w + 1)
        return bnot(N("eq", (wide, N("sext", (r,), w + 1)), 0))

    def method(self, e):
        _, recv, name, args = e
        # [a, b, ..].iter().rposition(|&n| n as u32 == x).unwrap_or_else(|| panic) — value-list lookup
        if name == "unwrap_or_else":
            inner = recv
            clo = args[0]
            if clo[0] != "closure" or clo[2][0] != "call" or clo[2][1][-1] not in PANICS:
                raise Untranslatable("unwrap_or_else without a panicking closure")
            if inner[0] == "method" and inner[2] == "rposition" and inner[1][0] == "method" and inner[1][2] == "iter" and inner[1][1][0] == "array":
                items = inner[1][1][1]
                pred = inner[3][0]
                if pred[0] != "closure" or len(pred[1]) != 1:
                    raise Untranslatable("rposition predicate")
                found, idx = bfalse(), const(0, 64)
                for i, it in enumerate(items):
                    self.env[pred[1][0]] = self.run(it)
                    c = self.run(pred[2])
                    del self.env[pred[1][0]]
                    found = bor(found, c.n)
                    idx = N("ite", (c.n, const(i, 64), idx), 64)       # later matches win: rposition
                self.add_panic(bnot(found))
                return Val(idx, TYPES["usize"])
            v = self.run(inner)
            if v.ty == "option":
                ok, val = v.n
                self.add_panic(bnot(ok))
                return Val(val, (val.w, False))
            raise Untranslatable("unwrap_or_else receiver")
        v = self.run(recv)
        if name in ("wrapping_add", "wrapping_sub"):
            y = self.run(args[0])
            x, y = self.unify(v, y)
            return Val(N("add" if name == "wrapping_add" else "sub", (x.n, y.n), x.ty[0]), x.ty)
        if name == "wrapping_neg":
            return Val(N("neg", (v.n,), v.ty[0]), v.ty)
        if name == "trailing_zeros":
            return Val(N("zext" if v.ty[0] < 32 else "trunc", (N("ctz", (v.n,), v.ty[0]),), 32) if v.ty[0] != 32 else N("ctz", (v.n,), 32), TYPES["u32"])
        if name == "to_bits":
            return Val(v.n, TYPES["u32"])
        if name in ("into", "clone"):
            return v
        raise Untranslatable(f"method {name}")


def translate(text, variables, checked):
    """returns (panic: IR Bool node, value: IR node, value type)"""
    s = Sym(variables, checked)
    v = s.run(parse(text))
    if v is None or v.n is None or not isinstance(v.ty, tuple):
        raise Untranslatable("no value")
    return fold(s.panic), fold(v.n), v.ty


def evaluate(text, variables, values, checked, ext=None):
    """concrete evaluation: ('panic', None) or ('ok', int)"""
    p, v, ty = translate(text, variables, checked)
    if ev(p, values, ext):
        return "panic", None
    return "ok", ev(v, values, ext)
