"""C06 — label misuse and unreachable targets surface as the right error at commit.
Proof: lean/DynasmVerif/Props/C06.lean (slot_after_step, slot_empty_of_healthy, patch_outcome, patchStatics_outcome, failed_commit_publishes_nothing).
Tie: `asm` stream with a defect injector (each class at a random position, alone and with healthy references and earlier/later commits,
distances at range-1/range/range+1) + the scanning oracle's defect list evaluated against the implementation's answers."""
import asmcheck
import asmgen
import asmprops
import common
from common import SplitMix

MODULES = ["DynasmVerif.Props.C06"]


def evaluator(p, res, meta):
    try:
        o = asmgen.Oracle(p).run()
    except asmgen.Unsupported:
        return None
    if any(a == "bad-op" for (_, a, _) in res):
        return None         # not a program (the shrinker removes lines: a session operation outside its block means nothing)
    ff = o.first_failing_commit()
    commit_ix = {i for i in o.commits}
    # observed first failing commit-like call
    obs = None
    last_buf = None
    for idx, (req, a, _) in enumerate(res):
        k = req.split()[0]
        if a in ("panic", "dead") and k in ("c", "fin", "take", "drain", "}alter", "alter{"):
            # finalize on the executable assembler panics on an error by design (`expect`)
            if k == "fin" and ff is not None and p[0].startswith("new asm"):
                obs = (idx, "err <panic in finalize>")
                break
            return ({"kind": "panic", "op": k}, f"`{k}` panicked")
        if k in ("c", "fin", "take", "drain", "}alter", "alter{") and a.startswith("err"):
            obs = (idx, a)
            break
    if ff is None:
        if obs is not None:
            return ({"kind": "healthy-program-rejected"}, f"`{p[obs[0]]}` returned `{obs[1]}` although the program has none of the defects")
        return None
    want_ix, allowed = ff
    if obs is None:
        return ({"kind": "defect-not-reported", "class": allowed[0].split("(")[0]}, f"`{p[want_ix]}` (request #{want_ix}) must fail with one of {allowed[:3]} but every commit succeeded")
    if obs[0] != want_ix:
        return ({"kind": "wrong-commit-failed"}, f"request #{obs[0]} failed with `{obs[1]}`, but the first defective batch ends at request #{want_ix} ({allowed[:2]})")
    e = obs[1][4:]
    if e.startswith("<panic"):
        return None
    if e not in allowed:
        return ({"kind": "wrong-error", "got": e.split("(")[0]}, f"`{p[want_ix]}` failed with `{e}`; the batch's defects are {allowed[:4]}")
    # no code for the failing batch: the executable buffer after the failing commit equals the one before
    if p[0].startswith("new asm"):
        bufs = [(i, a) for i, (req, a, _) in enumerate(res) if req == "buf"]
        last_ok = max([i for i, (req, a, _) in enumerate(res) if req in ("c", "alter{") and a.startswith("ok") and i < want_ix], default=-1)
        before = [a for (i, a) in bufs if last_ok < i < want_ix]
        after = [a for (i, a) in bufs if i == want_ix + 1]
        if before and after and after[0] != before[-1]:
            return ({"kind": "failing-batch-published"}, "the executable buffer changed across the failing commit")
    return None


def deferred_retry_program(rng, front, fam, defect):
    """a batch with a definition-time defect (recorded in the error slot and reported by the next commit), the failing commit, and then
    ANOTHER commit / finalize of the same batch: the batch still contains the defect, so by the property's `exactly when` it must fail again"""
    g = asmgen.Gen(rng, front, fam, max_ops=8, base=0)
    g.header()
    lines = g.lines
    lines.append("nd")
    g.ndyn = 1
    g.emit(g.code())
    if defect == "back-undefined":
        g.ref_line("rb", 6, g.pick_shape(data_ok=False), toff=0)
    elif defect == "dup-global":
        lines += ["gl 9"]
        g.emit(g.code())
        lines += ["gl 9"]
    elif defect == "dup-dyn":
        lines += ["dl 0"]
        g.emit(g.code())
        lines += ["dl 0"]
    else:           # definition of a dynamic label that was never allocated
        lines += ["dl 7"]
    g.emit(g.code())
    lines.append("c")
    if rng.chance(1, 2):
        g.emit(g.code())
    lines.append("c" if front == "asm" and rng.chance(1, 2) else "fin")
    return lines


def deferred_retry_evaluator(p, res, meta):
    fails = [i for i, (req, a, _) in enumerate(res) if req in ("c", "fin") and a.startswith("err")]
    if not fails:
        return ({"kind": "defective-batch-accepted", "front": meta["front"], "defect": meta["defect"]}, f"no commit of a batch with defect `{meta['defect']}` failed")
    first = fails[0]
    later = [(req, a) for (req, a, _) in res[first + 1:] if req in ("c", "fin")]
    for req, a in later:
        if a.startswith("ok"):
            return ({"kind": "deferred-defect-forgotten", "front": meta["front"], "defect": meta["defect"]},
                    f"`{res[first][0]}` failed with `{res[first][1][:40]}`; the batch is unchanged in that respect, yet the following `{req}` returned `{a[:40]}`"
                    + (" and handed out the code" if req == "fin" else " and made the code executable"))
    return None


def check(run):
    rng = SplitMix(run.seed)
    thorough = run.tier == "thorough"
    common.base_trusted(run, bv=True)
    run.coverage["trusted_base"] += ["harness/rt (asm stream executor)", "lib/asmgen.Oracle (scanning defect list in python)"]
    run.assumptions += ["'exactly when' is stated for the first failing commit of a history; behaviour after an error is C11",
                        "fields of pending references lie inside the current batch (FieldInBatch)"]
    run.coverage["rule"] = ("C01 programs with one injected defect in 1 of 2 programs: unknown forward/global/dynamic label, backward reference without definition, duplicate global/dynamic, "
                            "unallocated dynamic definition, out-of-range distance at range+align / +3 align (fields up to +-32 KiB; thorough: up to +-1 MiB), misaligned target; "
                            "on VecAssembler and Assembler x 4 families. non-trivial = program in which a commit returned an error")
    ok, proofs_ok = asmprops.proof_and_build(run, MODULES, allow_bv=True)
    if not ok:
        return
    found_before = len(run.violations) + len(run.known_hit)
    progs, metas = [], []
    classes = {}
    for i in range(200000 if thorough else 6000):
        fam = rng.choice(["x64", "x86", "a64", "rv"])
        front = rng.choice(["vec", "asm"])
        g = asmgen.Gen(rng, front, fam, max_ops=30, defect_rate=(1, 2), big=False)
        lines, defect = g.build()
        if front == "asm" and lines[-1] == "buf" and "c" in lines:
            pass
        progs.append(lines)
        metas.append(None)
        classes[defect or "healthy"] = classes.get(defect or "healthy", 0) + 1
    # defects inside alter sessions: a backward reference to a name that has no definition yet (possibly defined LATER in the same session),
    # an unknown global / forward name, a duplicate global definition — the session must end with the right error
    import c10
    n_ses = 0
    for i in range(20000 if thorough else 1500):
        fam = rng.choice(["x64", "x86", "a64", "rv"])
        lines, _ = c10.session_program(rng, fam, True, False)
        ix = [k for k, l in enumerate(lines) if l.split()[0] in ("rb", "rf", "rg") and "alter{" in lines[:k] and "}alter" in lines[k:]]
        if not ix:
            continue
        k = rng.choice(ix)
        ws = lines[k].split()
        mode = rng.choice(["back-undefined", "back-defined-later", "unknown", "dup-global"])
        if mode in ("back-undefined", "back-defined-later"):
            lines[k] = " ".join(["rb", "5"] + ws[2:])
            if mode == "back-defined-later":
                end = next(j for j in range(k, len(lines)) if lines[j] == "}alter")
                lines.insert(rng.range(k + 1, end), "ll 5")
        elif mode == "unknown":
            lines[k] = " ".join([rng.choice(["rf", "rg"]), "6"] + ws[2:])
        else:
            lines.insert(k, "gl 9")
        progs.append(lines)
        metas.append(None)
        n_ses += 1
        classes["session:" + mode] = classes.get("session:" + mode, 0) + 1
    stats = asmprops.process(run, progs, evaluator, metas, chunk=250)
    # a definition-time defect is reported by ONE commit; what does the next commit of the same batch do? (own batch: recorded findings
    # must not use up the report limit of the main batch)
    dprogs, dmetas = [], []
    for _ in range(400 if thorough else 80):
        front, fam = rng.choice(["vec", "asm"]), rng.choice(["x64", "x86", "a64", "rv"])
        defect = rng.choice(["back-undefined", "dup-global", "dup-dyn", "undefined-dyn-def"])
        dprogs.append(deferred_retry_program(rng, front, fam, defect))
        dmetas.append({"front": front, "defect": defect})
    dstats = asmprops.process(run, dprogs, deferred_retry_evaluator, dmetas, chunk=100, limit=16, label="deferred-defect retry")
    stats["deferred_defect_retries"] = dstats
    stats["requests"] += dstats["requests"]
    run.coverage["evaluations"] = len(progs) + len(dprogs)
    run.coverage["distinct_nontrivial"] = stats.get("with_error", 0)
    run.coverage["traces_validated_against_impl"] = stats["requests"]
    run.coverage["distribution"] = dict(stats, injected=classes)
    run.coverage["samples"] = [[l[:60] for l in progs[2][:40]]]
    asmprops.finish_proofs(run, proofs_ok, found_before)


def replay(path):
    return asmcheck.replay(path)
