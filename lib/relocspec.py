"""T-bits tie for C05: `lib/reloctrans.py` translates the TEXT of runtime/src/{relocations,aarch64,riscv,x64,x86}.rs into
lean/DynasmVerif/Generated/RelocCode.lean (per format: error condition, written word, read-back value as bit-vector functions);
`Props/C05Spec.lean` proves them equal to the model the C05 theorems are stated about. The same IR is evaluated here and compared with
what the compiled implementation answers on every explicit request of the correspondence stream (`validate`): that ties the
translator's reading of Rust to rustc's."""
import os
import re

import common
import reloctrans

TARGET = os.path.join(common.LEAN, "DynasmVerif", "Generated", "RelocCode.lean")
_state = {}


def code_name(proto):
    fam, _, rest = proto.partition(".")
    if fam in ("p", "x64", "x86"):
        return "x." + rest
    return proto


def generate(run):
    try:
        tr = reloctrans.translate_all()
    except reloctrans.Untranslatable as ex:
        _state.clear()
        return False, f"the relocation code can no longer be translated (lib/reloctrans.py): {ex}"
    reloctrans.emit_lean(tr, TARGET)
    _state["tr"] = tr
    run.coverage.setdefault("distribution_extra", {})["translated_formats"] = sorted(tr)
    return True, "generated"


def validate(run, results):
    """compare the translation, evaluated in python, with the implementation's answers; returns number of comparisons"""
    tr = _state.get("tr")
    if not tr:
        return 0
    n, bad = 0, []
    for (pairs, _diffs, _rcs) in results:
        for item in pairs:
            req, ans = item[0], item[1]
            parts = req.split()
            if parts[0] not in ("w", "r"):
                continue
            d = tr.get(code_name(parts[1]))
            if d is None:
                continue
            word = int.from_bytes(bytes.fromhex(parts[2][1:]), "little")
            if parts[0] == "w":
                got = reloctrans.evaluate_write(d, word, int(parts[3]))
                if got == "err":
                    want = "impossible"
                elif got == "panic":
                    want = "panic"
                else:
                    want = "ok x" + int(got.split()[1]).to_bytes(8, "little")[:d["size"]].hex()
            else:
                got = reloctrans.evaluate_read(d, word)
                want = "panic" if got == "panic" else str(got)
            n += 1
            if want != ans and len(bad) < 5:
                bad.append({"request": req, "implementation": ans, "translation": want})
    if bad:
        run.violation("broken-correspondence", {"kind": "reloc-translation-differs", "fmt": bad[0]["request"].split()[1]},
                      f"the translation of the relocation source text evaluates differently from the compiled implementation: {bad[0]}",
                      {"differences": bad, "note": "translator (lib/reloctrans.py) and rustc disagree about the same text"}, found_input=False)
    return n


def counterexample_requests(log, formats):
    """bv_decide prints `old = N#64` / `v = N#64` / `w = N#64` for a failing obligation: turn them into explicit requests for every format"""
    vals = {}
    for name, num in re.findall(r"\b(old|v|w)\s*=\s*(?:0x)?([0-9a-fA-F]+)#64", log or ""):
        try:
            vals.setdefault(name, int(num))
        except ValueError:
            vals.setdefault(name, int(num, 16))
    if not vals:
        return []
    reqs = []
    for name, (size, *_rest) in sorted(formats.items()):
        mask = (1 << (8 * size)) - 1
        if "v" in vals:
            v = vals["v"] - (1 << 64) if vals["v"] >> 63 else vals["v"]
            old = vals.get("old", 0) & mask
            reqs.append(f"w {name} x{old.to_bytes(size, 'little').hex()} {v}")
        for key in ("w", "old"):
            if key in vals:
                reqs.append(f"r {name} x{(vals[key] & mask).to_bytes(size, 'little').hex()}")
    return reqs
