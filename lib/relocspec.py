"""T-data translator for C05: extracts keep-masks, scatter pieces, range tests and read-back pieces from the text of
runtime/src/{aarch64,riscv}.rs into lean/DynasmVerif/Generated/RelocSpec.lean (compared with Model.Reloc by `decide`).
Stage 2 — not built yet: returns "absent" and the check relies on the exhaustive correspondence stream alone."""


def generate(run):
    return False, "absent"
