"""C13 — x86/x64 memory operands denote the effective address that was written.
Proof: lean/DynasmVerif/Props/C13.lean — (A) clean_memoryref keeps every register's coefficient for arbitrary item lists (induction);
(B) sanitize + mode selection + REX/VEX X,B + displacement, read back by an SDM decoder, over all register records / scales / modes /
displacement shapes and values at once (bv_decide); composed in written_operand_decodes_*.
Tie: the same operands rendered as lea / vaddps / vgatherdps / vpgatherdd lines: static ones through the plugin in-process (harness/plug),
dynamic registers and runtime displacements through the real macro and rustc (harness/dyn) for every runtime register number; bytes
compared with the model's; every accepted byte string is disassembled by llvm-mc (second, independent decoder) and the printed operand
must be the linear form that was written (direct evaluation on the implementation) and the one the model's decoder reads."""
import json
import os
import re

import common
import dyn
from common import SplitMix

MODULES = ["DynasmVerif.Props.C13"]
LLVM_MC = "/usr/lib/llvm-14/bin/llvm-mc"
LEGACY, RIP, XMM = 0, 1, 2
G64 = ["rax", "rcx", "rdx", "rbx", "rsp", "rbp", "rsi", "rdi", "r8", "r9", "r10", "r11", "r12", "r13", "r14", "r15"]
G32 = ["eax", "ecx", "edx", "ebx", "esp", "ebp", "esi", "edi", "r8d", "r9d", "r10d", "r11d", "r12d", "r13d", "r14d", "r15d"]
G16 = ["ax", "cx", "dx", "bx", "sp", "bp", "si", "di"]
CARRIER = {"lea32": "lea eax, [{m}]", "lea64": "lea rcx, [{m}]", "lear9": "lea r9d, [{m}]", "vex": "vaddps xmm0, xmm1, [{m}]",
           "vexy": "vaddps ymm8, ymm1, [{m}]", "vsibx": "vgatherdps xmm1, [{m}], xmm2", "vsiby": "vgatherdps ymm1, [{m}], ymm2",
           "vsibd": "vpgatherdd xmm9, [{m}], xmm2"}


class Reg:
    """fam, size code (log2 bytes), number, dynamic variable name or None"""
    def __init__(self, fam, size, num, var=None):
        self.fam, self.size, self.num, self.var = fam, size, num, var

    def text(self):
        if self.var:
            return {(LEGACY, 3): "Rq", (LEGACY, 2): "Rd", (LEGACY, 1): "Rw", (XMM, 4): "Rx", (XMM, 5): "Ry"}[(self.fam, self.size)] + f"({self.var})"
        if self.fam == RIP:
            return "rip" if self.size == 3 else "eip"
        if self.fam == XMM:
            return ("xmm" if self.size == 4 else "ymm") + str(self.num)
        return {3: G64, 2: G32, 1: G16}[self.size][self.num]

    def tok(self, num=None):
        return f"{self.fam}:{self.size}:{self.num if num is None else num}:{1 if self.var else 0}"


def g64(n): return Reg(LEGACY, 3, n)
def g32(n): return Reg(LEGACY, 2, n)
def xmm(n): return Reg(XMM, 4, n)
def ymm(n): return Reg(XMM, 5, n)


class Op:
    """items: [(reg, scale or None)], disp: None | ('lit', v) | ('rt', v) ; ovr None|'byte'|'dword'|'other'"""
    def __init__(self, long, carrier, items, disp=None, ovr=None, nosplit=False, tag=""):
        self.long, self.carrier, self.items, self.disp, self.ovr, self.nosplit, self.tag = long, carrier, items, disp, ovr, nosplit, tag

    def dynamic(self):
        return any(r.var for (r, _) in self.items) or (self.disp is not None and self.disp[0] == "rt")

    def mem_text(self, flip=False):
        parts = []
        for (r, s) in self.items:
            parts.append(r.text() if s is None else (f"{s}*{r.text()}" if flip else f"{r.text()}*{s}"))
        txt = " + ".join(parts)
        if self.disp is not None:
            kind, v = self.disp
            if kind == "rt":
                d = "v8" if self.ovr == "byte" else "v"
                txt = f"{txt} + {d}" if txt else d
            else:
                txt = (f"{txt} - {-v}" if v < 0 else f"{txt} + {v}") if txt else str(v) if v >= 0 else f"0 - {-v}"
        kw = ("NOSPLIT " if self.nosplit else "") + ({"byte": "BYTE ", "dword": "DWORD ", "other": "WORD "}.get(self.ovr, ""))
        return kw + txt

    def line(self):
        return f"; .arch {'x64' if self.long else 'x86'} ; " + CARRIER[self.carrier].format(m=self.mem_text())

    def model_req(self, nums=None, dval=None):
        nums = nums or {}
        if self.disp is None:
            d = "none"
        elif self.disp[0] == "rt":
            d = f"rt:{dval if dval is not None else self.disp[1]}"
        else:
            v = self.disp[1]
            bare_negative = v < 0 and not self.items      # rendered as `0 - n`: not a literal for derive_size
            d = f"lit8:{v}" if -128 <= v <= 127 and not bare_negative else f"lit32:{v}"
            if bare_negative:
                d = f"rt:{v}"
        toks = []
        for (r, s) in self.items:
            n = nums.get(r.var) if r.var else None
            toks.append(("r:" + r.tok(n)) if s is None else f"s:{r.tok(n)}:{s}")
        return f"m {1 if self.long else 0} {1 if self.nosplit else 0} {self.carrier} {d} {self.ovr or 'none'} " + " ".join(toks)

    def source_lin(self, nums=None, dval=None):
        nums = nums or {}
        coef = {}
        width = None
        for (r, s) in self.items:
            n = nums.get(r.var, r.num) if r.var else r.num
            key = ("rip", 0) if r.fam == RIP else (("x" if r.fam == XMM else "g"), n)
            coef[key] = coef.get(key, 0) + (1 if s is None else s)
            if r.fam != XMM and width is None:
                width = 32 if r.size == 2 else 64 if r.size == 3 else 16
        d = 0 if self.disp is None else (dval if (self.disp[0] == "rt" and dval is not None) else self.disp[1])
        return {k: v for k, v in coef.items() if v}, d, width


# ------------------------------------------------------------------------------------------------ llvm-mc
NAME = {}
for i, n in enumerate(G64):
    NAME[n] = ("g", i, 64)
for i, n in enumerate(G32):
    NAME[n] = ("g", i, 32)
for i in range(16):
    NAME[f"xmm{i}"] = ("x", i, None)
    NAME[f"ymm{i}"] = ("x", i, None)
NAME["rip"] = ("rip", 0, 64)
NAME["eip"] = ("rip", 0, 32)


def parse_intel_mem(text):
    """`[r12 + 4*r13 + 8]` → (coef dict, disp, width or None) ; None if unparsable"""
    m = re.search(r"\[([^\]]*)\]", text)
    if not m:
        return None
    s = m.group(1).replace(" ", "")
    terms = re.findall(r"[+-]?[^+-]+", s)
    coef, disp, width = {}, 0, None
    for t in terms:
        sign = -1 if t.startswith("-") else 1
        t = t.lstrip("+-")
        if "*" in t:
            a, b = t.split("*")
            k, r = (int(a, 0), b) if a[0].isdigit() else (int(b, 0), a)
        elif t[0].isdigit():
            disp += sign * int(t, 0)
            continue
        else:
            k, r = 1, t
        if r in ("riz", "eiz"):
            width = width or (64 if r == "riz" else 32)
            continue
        if r not in NAME or sign < 0:
            return None
        cls, n, w = NAME[r]
        coef[(cls, n)] = coef.get((cls, n), 0) + k
        if w and width is None:
            width = w
    return coef, disp, width


def disassemble(byte_strings, long):
    """list of bytes → list of text lines (None where llvm-mc cannot decode)"""
    out = [None] * len(byte_strings)
    inp = "\n".join(" ".join(f"0x{b:02x}" for b in bs) for bs in byte_strings) + "\n"
    rc, txt = common.sh([LLVM_MC, "--disassemble", "-triple=" + ("x86_64" if long else "i386"), "-output-asm-variant=1", "-mattr=+avx2"], inp=inp)
    lines = [l.strip() for l in txt.split("\n") if l.startswith("\t") and not l.strip().startswith(".")]
    if len(lines) == len(byte_strings) and "invalid" not in txt and "warning" not in txt:
        return [l.replace("\t", " ") for l in lines]
    # some line failed: one by one
    for i, bs in enumerate(byte_strings):
        rc, txt = common.sh([LLVM_MC, "--disassemble", "-triple=" + ("x86_64" if long else "i386"), "-output-asm-variant=1", "-mattr=+avx2"],
                            inp=" ".join(f"0x{b:02x}" for b in bs) + "\n")
        ls = [l.strip() for l in txt.split("\n") if l.startswith("\t") and not l.strip().startswith(".")]
        if len(ls) == 1 and "invalid" not in txt and "warning" not in txt:
            out[i] = ls[0].replace("\t", " ")
    return out


# ------------------------------------------------------------------------------------------------ enumeration
def static_ops(thorough, rng):
    ops = []
    disps = [None, ("lit", 0), ("lit", 8), ("lit", -128), ("lit", 127), ("lit", 128), ("lit", -129), ("lit", 0x12345678), ("lit", -0x80000000)]
    few = [None, ("lit", 8), ("lit", 300)]
    # ---- long mode, 64-bit registers: every base x index x scale
    for b in range(16):
        for d in disps:
            ops.append(Op(True, "lea32", [(g64(b), None)], d))
        for i in range(16):
            for s in (None, 1, 2, 4, 8):
                for d in (few if not thorough else disps):
                    ops.append(Op(True, "lea32", [(g64(b), None), (g64(i), s)], d))
    # single register scaled, with and without NOSPLIT; same register repeated; impossible scales
    for r in range(16):
        for s in (1, 2, 3, 4, 5, 6, 7, 8, 9, 10, 16):
            for ns in (False, True):
                for d in few:
                    ops.append(Op(True, "lea32", [(g64(r), s)], d, nosplit=ns))
        for d in few:
            ops.append(Op(True, "lea32", [(g64(r), None), (g64(r), None)], d))
            ops.append(Op(True, "lea32", [(g64(r), None), (g64(r), 2)], d))
            ops.append(Op(True, "lea32", [(g64(r), 2), (g64(r), 2)], d))
            ops.append(Op(True, "lea32", [(g64(r), None), (g64(r), 4)], d))
            ops.append(Op(True, "lea32", [(g64(r), 4), (g64(r), 4), (g64((r + 1) % 16), None)], d))
            ops.append(Op(True, "lea32", [(g64(r), None), (g64(r), None), (g64(r), None)], d))
            ops.append(Op(True, "lea32", [(g64(r), None), (g64((r + 3) % 16), None), (g64((r + 5) % 16), None)], d))
            ops.append(Op(True, "lea32", [(g64(r), 2), (g64((r + 3) % 16), 4)], d))
    # displacement only, overrides
    for d in disps[1:]:
        ops.append(Op(True, "lea32", [], d))
        ops.append(Op(False, "lea32", [], d))
    for ovr in ("byte", "dword", "other"):
        for d in (None, ("lit", 8), ("lit", 100)):
            for items in ([(g64(0), None)], [(g64(5), None)], [(g64(4), None)], [(g64(1), 4)], [(g64(12), None), (g64(13), 2)], [(g64(3), 2)], []):
                for ns in (False, True):
                    if items or d is not None:
                        ops.append(Op(True, "lea32", items, d, ovr=ovr, nosplit=ns))
    # other carriers (REX.W, REX.R, VEX 2/3 byte)
    for car in ("lea64", "lear9", "vex", "vexy"):
        for b in range(16):
            for i in (0, 4, 5, 8, 12, 13, 15):
                for s in (None, 4):
                    ops.append(Op(True, car, [(g64(b), None), (g64(i), s)], ("lit", 8) if (b + i) % 2 else None))
            ops.append(Op(True, car, [(g64(b), None)], None))
            ops.append(Op(True, car, [(g64(b), 8)], ("lit", -4)))
        ops.append(Op(True, car, [], ("lit", 0x1000)))
        ops.append(Op(True, car, [(Reg(RIP, 3, 5), None)], ("lit", 64)))
    # 32-bit address size in long mode; mixed sizes; 16- and 8-bit registers
    for b in range(16):
        for i in (0, 4, 5, 9, 12, 13):
            for s in (None, 2, 8):
                ops.append(Op(True, "lea32", [(g32(b), None), (g32(i), s)], ("lit", 8) if b % 2 else None))
        ops.append(Op(True, "lea32", [(g32(b), None)], None))
        ops.append(Op(True, "lea32", [(g32(b), 3)], None))
        ops.append(Op(True, "lea32", [(g32(b), None), (g64((b + 1) % 16), None)], None))
        ops.append(Op(True, "vex", [(g32(b), None), (g32((b + 1) % 16), 4)], ("lit", 1000)))
    for b in range(8):
        ops.append(Op(True, "lea32", [(Reg(LEGACY, 1, b), None)], None))
        ops.append(Op(False, "lea32", [(Reg(LEGACY, 1, b), None)], None))
        ops.append(Op(True, "lea32", [(Reg(LEGACY, 1, 3), None), (Reg(LEGACY, 1, 6), None)], None))
    # rip-relative
    for r in (Reg(RIP, 3, 5), Reg(RIP, 2, 5)):
        for d in disps:
            ops.append(Op(True, "lea32", [(r, None)], d))
        ops.append(Op(True, "lea32", [(r, 2)], None))
        ops.append(Op(True, "lea32", [(r, 1)], ("lit", 16)))
        ops.append(Op(True, "lea32", [(r, None), (g64(0), None)], None))
        ops.append(Op(True, "lea32", [(r, None), (r, None)], None))
    # VSIB
    for (car, vec) in (("vsibx", xmm), ("vsiby", ymm), ("vsibd", xmm)):
        for x in range(16):
            for s in (None, 1, 2, 4, 8, 3):
                for d in few:
                    ops.append(Op(True, car, [(vec(x), s)], d))
                    for b in ((0, 4, 5, 12, 13, 15) if not thorough else range(16)):
                        ops.append(Op(True, car, [(g64(b), None), (vec(x), s)], d))
            ops.append(Op(True, car, [(vec(x), None), (g64(x), None)], None))
            ops.append(Op(True, car, [(vec(x), None), (g64(x), 2)], None))
            ops.append(Op(True, car, [(vec(x), 2), (g32(x), None)], ("lit", 8)))
            ops.append(Op(True, car, [(vec(x), None), (vec((x + 1) % 16), None)], None))
            ops.append(Op(True, car, [(vec(x), 4), (g64(3), None)], ("lit", 8), ovr="byte"))
            ops.append(Op(True, car, [(vec(x), 4)], ("lit", 8), ovr="byte"))
            ops.append(Op(True, car, [(vec(x), 4), (g64(3), None)], ("lit", 8), ovr="dword"))
        ops.append(Op(True, car, [(g64(0), None), (g64(1), 4)], None))          # not a vector index: operand kind mismatch
        ops.append(Op(True, "lea32", [(g64(0), None), (xmm(1), 4)], None))
    # ---- protected mode: 8 registers of 32 bits
    for b in range(8):
        for d in disps:
            ops.append(Op(False, "lea32", [(g32(b), None)], d))
        for i in range(8):
            for s in (None, 1, 2, 4, 8):
                for d in few:
                    ops.append(Op(False, "lea32", [(g32(b), None), (g32(i), s)], d))
                    if s in (None, 4):
                        ops.append(Op(False, "vex", [(g32(b), None), (g32(i), s)], d))
        for s in (2, 3, 5, 9, 6):
            for ns in (False, True):
                ops.append(Op(False, "lea32", [(g32(b), s)], None, nosplit=ns))
        for x in range(8):
            for s in (None, 2, 8):
                ops.append(Op(False, "vsibx", [(g32(b), None), (xmm(x), s)], ("lit", 8) if x % 2 else None))
        ops.append(Op(False, "vsibx", [(xmm(b), 4)], ("lit", 64)))
        ops.append(Op(False, "vsiby", [(ymm(b), 4)], None))
    return ops


def dynamic_ops(thorough):
    """macro cases with dynamic registers / runtime displacements; each is compiled once and run for every runtime value"""
    ops = []
    A, B = lambda f=LEGACY, s=3: Reg(f, s, 0, "a"), lambda f=LEGACY, s=3: Reg(f, s, 0, "b")
    rt, rt8 = ("rt", 0), ("rt", 0)
    for car in ("lea32", "lea64", "vex"):
        ops += [Op(True, car, [(A(), None)], None), Op(True, car, [(A(), None)], ("lit", 8)), Op(True, car, [(A(), None)], ("lit", 1000)),
                Op(True, car, [(A(), None)], rt), Op(True, car, [(A(), None)], rt8, ovr="byte"),
                Op(True, car, [(A(), None), (B(), None)], None), Op(True, car, [(A(), None), (B(), 4)], ("lit", 8)),
                Op(True, car, [(A(), None), (B(), 8)], rt)]
    for s in (1, 2, 3, 4, 5, 8, 9):
        for ns in (False, True):
            ops.append(Op(True, "lea32", [(A(), s)], None, nosplit=ns))
            ops.append(Op(True, "lea32", [(A(), s)], ("lit", 8), nosplit=ns))
    for st in (0, 3, 4, 5, 12, 13, 15):
        ops += [Op(True, "lea32", [(g64(st), None), (B(), None)], None), Op(True, "lea32", [(g64(st), None), (B(), 4)], ("lit", 8)),
                Op(True, "lea32", [(A(), None), (g64(st), None)], None), Op(True, "lea32", [(A(), None), (g64(st), 2)], rt),
                Op(True, "lear9", [(A(), None), (g64(st), 8)], None)]
    ops += [Op(True, "lea32", [(A(s=2), None)], None), Op(True, "lea32", [(A(s=2), None), (B(s=2), 2)], ("lit", 8)), Op(True, "lea32", [(A(s=2), 5)], None),
            Op(True, "lea32", [(A(), None), (B(s=2), None)], None)]
    # VSIB with dynamic base / index
    for (car, vs) in (("vsibx", 4), ("vsiby", 5)):
        ops += [Op(True, car, [(A(), None), (Reg(XMM, vs, 3), 4)], None), Op(True, car, [(g64(0), None), (B(XMM, vs), 2)], None),
                Op(True, car, [(A(), None), (B(XMM, vs), 8)], rt), Op(True, car, [(B(XMM, vs), 4)], ("lit", 64)), Op(True, car, [(B(XMM, vs), None)], None),
                Op(True, car, [(A(), None), (B(XMM, vs), 1)], rt8, ovr="byte"), Op(True, car, [(g64(13), None), (B(XMM, vs), None)], None)]
    # runtime displacement with static registers
    for items in ([(g64(0), None)], [(g64(5), None)], [(g64(4), None)], [(g64(13), None), (g64(12), 2)], [(g64(1), 4)], [(g64(1), 3)], [], [(Reg(RIP, 3, 5), None)],
                  [(g32(6), None), (g32(7), 8)]):
        ops.append(Op(True, "lea32", items, rt))
        if items:
            ops.append(Op(True, "lea32", items, rt8, ovr="byte"))
        ops.append(Op(True, "lea32", items, rt, ovr="dword"))
    ops += [Op(True, "vsibx", [(xmm(9), 4)], rt), Op(True, "vsibx", [(g64(5), None), (xmm(9), 4)], rt), Op(True, "vsibx", [(g64(5), None), (xmm(9), 4)], rt8, ovr="byte"),
            Op(True, "vsibx", [(xmm(9), 4)], rt8, ovr="byte")]
    # protected mode
    Ad, Bd = Reg(LEGACY, 2, 0, "a"), Reg(LEGACY, 2, 0, "b")
    ops += [Op(False, "lea32", [(Ad, None)], None), Op(False, "lea32", [(Ad, None), (Bd, 2)], ("lit", 8)), Op(False, "lea32", [(Ad, 3)], None),
            Op(False, "lea32", [(Ad, None)], rt), Op(False, "lea32", [(g32(3), None), (Bd, 4)], rt8, ovr="byte"), Op(False, "lea32", [], rt),
            Op(False, "vex", [(Ad, None), (Bd, None)], None), Op(False, "vsibx", [(Ad, None), (Reg(XMM, 4, 0, "b"), 4)], None),
            Op(False, "lea32", [(g32(5), None)], rt), Op(False, "lea32", [(g32(2), 8)], rt)]
    return ops


DISP_RT = [0, 1, -1, 127, 128, -128, -129, 0x7FFFFFFF, -0x80000000, 0x1234]
DISP_RT8 = [0, 1, -1, 127, -128, 0x55]


def eval_lit(expr):
    e = expr.strip()
    if not re.fullmatch(r"[0-9a-fA-Fx()+\- ]+", e):
        return None
    try:
        return int(eval(e, {"__builtins__": {}}, {}))
    except Exception:      # noqa
        return None


def static_bytes(ans):
    """bytes of an all-constant `ok [...]` answer; ('reject'|'panic'|'dynamic', detail) otherwise"""
    if ans.startswith("reject") or ans.startswith("parse-error"):
        return "reject", ans
    if not ans.startswith("ok "):
        return "panic", ans
    b = b""
    for s in json.loads(ans[3:]):
        k, _, v = s.partition("|")
        if k in ("c1", "c2", "c4", "c8"):
            b += int(v, 16).to_bytes(int(k[1]), "little")
        elif k == "x":
            b += bytes.fromhex(v)
        elif k in ("es1", "es2", "es4", "es8"):
            val = eval_lit(v)
            n = int(k[2])
            if val is None or not -(1 << (8 * n - 1)) <= val < (1 << (8 * n - 1)):
                return "dynamic", s
            b += (val & ((1 << (8 * n)) - 1)).to_bytes(n, "little")
        else:
            return "dynamic", s
    return "ok", b


def plug(reqs):
    _, out = common.sh([common.PLUG, "exec"], inp="\n".join(reqs) + "\n", timeout=3600)
    return [a for (_, a) in common.answers_of_impl(out)]


def model(reqs):
    _, out = common.run_model("hdr x64mem 1\n" + "\n".join(reqs) + "\n")
    return common.answers_of_model(out)[1:]


def parse_model(a):
    if not a.startswith("ok "):
        return a, None
    toks = a.split()
    d = dict(t.split("=", 1) for t in toks[2:])
    coef = {}
    if d["base"] != "-":
        key = ("rip", 0) if d["base"] == "rip" else (d["base"][0], int(d["base"][1:]))
        coef[key] = coef.get(key, 0) + 1
    if d["index"] != "-":
        r, k = d["index"].split("*")
        coef[(r[0], int(r[1:]))] = coef.get((r[0], int(r[1:])), 0) + int(k)
    return "ok", dict(bytes=bytes.fromhex(toks[1][1:]), coef={k: v for k, v in coef.items() if v}, disp=int(d["disp"]), width=int(d["w"]), wf=d["wf"] == "true", dyn4=d["dyn4"] == "true")


def check(run):
    rng = SplitMix(run.seed)
    thorough = run.tier == "thorough"
    common.base_trusted(run, bv=True)
    run.coverage["trusted_base"] += ["Model/X64Mem.lean `decode`: the reader's side written from the Intel SDM (ModRM/SIB/VSIB forms); cross-checked here against llvm-mc's disassembler on every byte string",
                                     "llvm-mc 14 (independent decoder, Intel syntax) and lib/c13.py parse_intel_mem",
                                     "harness/plug (plugin in-process), harness/dyn (real dynasm! through rustc)"]
    run.assumptions += ["type-mapped operands (`reg => Type[idx].field`, scale = size_of evaluated by rustc) are outside the Lean model and checked by execution against the Rust types (lib/x64tm.py); "
                        "segment prefixes and 16-bit addressing (never accepted) are outside the model",
                        "protected-mode `[eip + x]` is emitted as an absolute relocation: outside the theorem, compared as 'reloc' only",
                        "a dynamic register that lands in the SIB index field must not be 4 at run time (documented as unchecked): excluded from the property, bytes still compared"]
    ok, log = common.build_harness("plug")
    if not ok:
        run.violation("broken-correspondence", {"kind": "harness-build"}, "harness/plug does not build against the working tree", {"log": log[-3000:]}, found_input=False)
        return
    proofs_ok = common.standard_proof_step(run, MODULES, allow_bv_decide=True, extra_targets=["driver"])
    found_before = len(run.violations) + len(run.known_hit)
    if not proofs_ok and hasattr(run, "broken_build"):
        ok2, _ = common.lake_build(["driver"])
        if not ok2:
            run.violation("broken-obligation", {"kind": "lean-build"}, run.broken_build["first_error"], run.broken_build, found_input=False)
            return
    stats = {"static": 0, "dynamic_cases": 0, "dynamic_runs": 0, "accepted": 0, "rejected": 0, "excluded_dyn_index4": 0, "disassembled": 0, "by_carrier": {}, "by_tag": {}}
    reported = set()

    per_kind = {}

    def report(kind, key, what, payload, found=True):
        if (kind, key) in reported:
            return
        reported.add((kind, key))
        per_kind[kind] = per_kind.get(kind, 0) + 1
        stats.setdefault("findings_by_kind", {})[kind] = per_kind[kind]
        if per_kind[kind] > 4:          # the first few distinct operands of a kind are reported, the rest only counted
            return
        run.violation("failing-input" if found else "broken-correspondence", {"kind": kind, "shape": key}, what, payload, found_input=found)

    # results to evaluate: (op, description, payload, impl status, impl bytes, model answer, source lin)
    results = []
    # ------------------------------------------------------------------ static operands
    sops = static_ops(thorough, rng)
    sreqs = ["cl " + o.line() for o in sops]
    sans = []
    for a in common.parallel_map(plug, [sreqs[i:i + 3000] for i in range(0, len(sreqs), 3000)]):
        sans += a
    mans = []
    mreqs = [o.model_req() for o in sops]
    for a in common.parallel_map(model, [mreqs[i:i + 3000] for i in range(0, len(mreqs), 3000)]):
        mans += a
    for o, req, a, mreq, ma in zip(sops, sreqs, sans, mreqs, mans):
        stats["static"] += 1
        st, b = static_bytes(a)
        if st == "dynamic":
            # a displacement the harness cannot evaluate textually: left to the dynamic path
            continue
        results.append((o, req[3:], {"stream": "plug", "input": [req], "model_input": ["hdr x64mem 1", mreq]}, st, b, ma, o.source_lin()))
    # ------------------------------------------------------------------ dynamic operands (real macro, every runtime register number)
    dops = dynamic_ops(thorough)
    # the plugin must accept a case for it to be compiled by rustc
    dans = plug(["cl " + o.line() for o in dops])
    cases, kept = [], []
    for o, a in zip(dops, dans):
        if a.startswith("ok "):
            vars_ = []
            names = sorted({r.var for (r, _) in o.items if r.var})
            vars_ += [(n, "u8") for n in names]
            if o.disp is not None and o.disp[0] == "rt":
                # the type the generated push_iN call expects (a BYTE override is ignored where the form needs disp32)
                vars_.append((("v8", "i32" if '"es4|v8"' in a else "i8")) if o.ovr == "byte" else ("v", "i32"))
            cases.append(dict(body=o.line(), vars=vars_))
            kept.append((o, names))
        else:
            m = model([o.model_req({"a": 1, "b": 2})])[0]
            if m.startswith("ok"):
                report("rejects-encodable", o.line(), f"`{o.line()}` is rejected by the plugin ({a[:100]}) but the model encodes it", {"stream": "plug", "input": ["cl " + o.line()]}, found=False)
    stats["dynamic_cases"] = len(cases)
    ok, log = dyn.build("C13", cases)
    if not ok:
        run.violation("broken-correspondence", {"kind": "harness-build", "harness": "dyn"}, "the generated crate using the real dynasm! macro does not build against the working tree",
                      {"log": log[-3000:]}, found_input=False)
    else:
        dreqs, dmeta = [], []
        for idx, (o, names) in enumerate(kept):
            nregs = 16 if o.long else 8
            if len(names) == 0:
                combos = [{}]
            elif len(names) == 1:
                combos = [{names[0]: n} for n in range(nregs)]
            else:
                combos = [{"a": x, "b": y} for x in range(nregs) for y in range(nregs)] if thorough or True else []
            dvals = [None]
            if o.disp is not None and o.disp[0] == "rt":
                dvals = DISP_RT8 if o.ovr == "byte" else DISP_RT
            for c in combos:
                for dv in (dvals if len(combos) <= 16 else dvals[:3]):
                    vals = [c[n] for n in names] + ([dv] if dv is not None else [])
                    dreqs.append((idx, vals))
                    dmeta.append((o, c, dv))
        dres = dyn.run("C13", dreqs)
        dm = []
        dmreqs = [o.model_req(c, dv) for (o, c, dv) in dmeta]
        for a in common.parallel_map(model, [dmreqs[i:i + 3000] for i in range(0, len(dmreqs), 3000)]):
            dm += a
        for (o, c, dv), (idx, vals), (st, b), mreq, ma in zip(dmeta, dreqs, dres, dmreqs, dm):
            stats["dynamic_runs"] += 1
            desc = f"dynasm!(ops {o.line()}) with " + ", ".join(f"{k} = {v}" for k, v in c.items()) + (f", displacement = {dv}" if dv is not None else "")
            results.append((o, desc, {"stream": "dyn", "case": cases[idx], "values": vals, "model_input": ["hdr x64mem 1", mreq]}, "ok" if st == "ok" else "panic", b, ma, o.source_lin(c, dv)))
    # ------------------------------------------------------------------ disassemble everything the implementation accepted
    for long in (True, False):
        sel = [i for i, r in enumerate(results) if r[0].long == long and r[3] == "ok"]
        texts = []
        chunks = [sel[i:i + 2000] for i in range(0, len(sel), 2000)]
        for t in common.parallel_map(lambda ch: disassemble([results[i][4] for i in ch], long), chunks):
            texts += t
        for i, t in zip(sel, texts):
            results[i] = results[i] + (t,)
    # ------------------------------------------------------------------ evaluate
    for r in results:
        o, desc, payload, st, b, ma, src = r[:7]
        text = r[7] if len(r) > 7 else None
        shape = f"{'x64' if o.long else 'x86'}:{o.carrier}:{o.mem_text()}"
        mst, m = parse_model(ma)
        stats["by_carrier"][o.carrier] = stats["by_carrier"].get(o.carrier, 0) + 1
        if st == "panic":
            report("panic", shape, f"{desc}: the implementation panics ({str(b)[:150]})", dict(payload, impl=str(b)[:300]))
            continue
        if st == "reject":
            stats["rejected"] += 1
            if mst == "ok":
                report("model-accepts-rejected", shape, f"`{desc}` is rejected ({b[:100]}) but the model encodes it", dict(payload, impl=b[:300], model=ma), found=False)
            continue
        stats["accepted"] += 1
        lin = parse_intel_mem(text) if text else None
        excluded = (m is not None and (m["dyn4"] or not m["wf"])) or mst == "reloc"
        if m is not None and m["dyn4"]:
            stats["excluded_dyn_index4"] += 1
        # (1) the property on the implementation's bytes, read by llvm-mc
        wrong = None
        if text is None and mst != "reloc":
            wrong = "llvm-mc cannot decode the emitted bytes"
        elif lin is not None and mst != "reloc":
            stats["disassembled"] += 1
            coef, disp, width = lin
            scoef, sdisp, swidth = src
            if coef != scoef:
                wrong = f"registers: written {fmt_coef(scoef)}, emitted bytes denote {fmt_coef(coef)}"
            elif (disp - sdisp) % (1 << 32) != 0:
                wrong = f"displacement: written {sdisp}, emitted bytes denote {disp}"
            elif swidth is not None and width is not None and width != swidth:
                wrong = f"address width: written {swidth}-bit registers, emitted bytes use {width}-bit addressing"
        if wrong and not excluded:
            report("wrong-address", shape, f"{desc} assembles to {b.hex()} = `{text}`: {wrong}", dict(payload, impl=b.hex(), disassembly=text, model=ma))
            continue
        # (2) correspondence with the model
        if mst == "reject":
            if not excluded:
                report("model-rejects-accepted", shape, f"{desc} is accepted ({b.hex()} = `{text}`, which is the written address) but the model rejects it", dict(payload, impl=b.hex(), model=ma), found=False)
            continue
        if mst == "reloc":
            continue
        if mst != "ok":
            report("driver", shape, f"the model driver answered `{ma}`", dict(payload, model=ma), found=False)
            continue
        if m["bytes"] != b:
            report("bytes-differ", shape, f"{desc}: implementation emits {b.hex()}, the model {m['bytes'].hex()} (both may denote the written address: `{text}`)",
                   dict(payload, impl=b.hex(), model=ma, disassembly=text), found=False)
            continue
        # (3) the model's reader against llvm-mc on the same bytes
        if lin is not None:
            coef, disp, width = lin
            if coef != m["coef"] or (disp - m["disp"]) % (1 << 32) != 0 or (width is not None and width != m["width"]):
                report("decoder-differs", shape, f"{b.hex()}: llvm-mc reads `{text}`, the model's SDM reader {ma}", dict(payload, impl=b.hex(), model=ma, disassembly=text), found=False)
    # type-mapped operands (`reg => Type[index].field`): outside the model (the scale is a Rust constant expression), checked by execution
    import x64tm
    stats["type_mapped"] = x64tm.sweep(run, thorough)
    run.coverage["evaluations"] = len(results)
    run.coverage["distinct_nontrivial"] = stats["accepted"]
    run.coverage["rule"] = ("long mode: every 64-bit base x index x scale x displacement class, single scaled registers (1..10,16) with/without NOSPLIT, repeated registers, 3-register "
                            "operands, displacement-size overrides, REX.W / REX.R / VEX carriers, 32-bit address size, 16/8-bit registers, rip/eip forms, VSIB with xmm/ymm index and every base; "
                            "protected mode: all 8x8 register pairs; dynamic registers and runtime displacements through the real macro for every runtime register number (16 / 16x16 / 8x8) "
                            "and boundary displacement values. Each accepted byte string is disassembled by llvm-mc and compared with the written linear form, with the model's bytes and "
                            "with the model's reader. non-trivial = accepted operand")
    run.coverage["traces_validated_against_impl"] = len(results)
    run.coverage["distribution"] = stats
    run.coverage["samples"] = sreqs[:2] + mreqs[:2]
    if not proofs_ok and hasattr(run, "broken_build"):
        found = (len(run.violations) + len(run.known_hit)) > found_before
        run.violation("broken-obligation", {"kind": "lean-build", "first": run.broken_build["first_error"][:200]}, run.broken_build["first_error"], run.broken_build, found_input=found)


def fmt_coef(c):
    if not c:
        return "no register"
    names = []
    for (cls, n), k in sorted(c.items()):
        nm = "rip" if cls == "rip" else (f"r{n}" if cls == "g" else f"vec{n}")
        names.append(nm if k == 1 else f"{nm}*{k}")
    return " + ".join(names)


def replay(path):
    rec = json.load(open(path))
    print(json.dumps({k: rec.get(k) for k in ("property", "kind", "what")}, indent=1))
    p = rec.get("payload", {})
    if p.get("stream") == "plug" and p.get("input"):
        common.build_harness("plug")
        for r, a in zip(p["input"], plug(p["input"])):
            print(r, "\n  impl:", a)
            st, b = static_bytes(a)
            if st == "ok":
                print("  bytes:", b.hex(), " llvm-mc:", disassemble([b], "x64" in r)[0])
    elif p.get("stream") == "dyn":
        ok, log = dyn.build("C13R", [p["case"]])
        if ok:
            res = dyn.run("C13R", [(0, p["values"])])
            print(p["case"]["body"], p["values"], "->", res)
            if res and res[0][0] == "ok":
                print("  llvm-mc:", disassemble([res[0][1]], "x64" in p["case"]["body"])[0])
        else:
            print(log[-2000:])
    if p.get("model_input"):
        common.lake_build(["driver"])
        print(common.run_model("\n".join(p["model_input"]) + "\n")[1])
    return 0 if p else 1
