"""T-bits translator for the COMPILE-TIME (literal operand) path of the riscv immediate commands (C03 / C04 / C15): the text of the
`Some(static_value) => { … }` branches of `Command::UImm | SImm | BigImm | UImmNo0 | SImmNo0 | UImmOdd | UImmRange`, of
`static_range_check`, of the two literal branches of `ImmediateEncoder::gather_fields` (`BitRange`, `RBitRange`) and of the loop that
applies the static fields to the template words (plugin/src/arch/riscv/compiler.rs; `bitmask`/`bitmask64` of plugin/src/common.rs
inlined) is executed symbolically for every distinct (check command, field list) of today's table and printed into
lean/DynasmVerif/Generated/RvStatic.lean: `rs<k>_ok v` (the literal is accepted) and `rs<k>_w<j> v` (what the fields contribute to
template word j). Each is proved equal to the hand model `RvEnc.Check.ok` / `RvEnc.contrib` (generated theorem `rs<k>_is_model`, every
64-bit literal), about which the riscv obligations of C03/C04 and the `li` theorems of C15 are stated."""
import os
import re

import rustexpr as rx
from rustexpr import N, Untranslatable, const, band, bor, bnot, btrue, bfalse, fold, TYPES
import reloctrans as rt
import immtrans
import statictrans

SRC = "/repo/plugin/src/arch/riscv/compiler.rs"
PARAMS = {"UImm": ("bits", "scaling"), "SImm": ("bits", "scaling"), "BigImm": ("bits",), "UImmNo0": ("bits", "scaling"),
          "SImmNo0": ("bits", "scaling"), "UImmOdd": ("bits", "scaling"), "UImmRange": ("min", "max")}


def clean(body):
    body = re.sub(r"emit_error!\([^;]*\);", "", body)
    body = re.sub(r"return\s+Err\(None\)\s*;?", "__fail();", body)
    body = re.sub(r"\)\s*\?", ")", body)
    return body


class RSSym(statictrans.SSym):
    def __init__(self, helpers, chk, checked=True):
        super().__init__(helpers, checked)
        self.chk = chk

    def exec_stmt(self, st):
        # `let x: T = <unsuffixed literal> << n;`: the literal takes the annotated type
        if st[0] == "let" and st[2] in TYPES and st[3][0] == "bin" and st[3][1] in ("<<", ">>") and st[3][2][0] in ("lit", "un"):
            lhs = self.run(st[3][2])
            if lhs.ty is None:
                lhs = self.coerce(lhs, TYPES[st[2]])
                self.env[st[1]] = rx.Val(self.binop(st[3][1], lhs, self.run(st[3][3])).n, TYPES[st[2]])
                return
        return super().exec_stmt(st)

    def run(self, e):
        if e[0] == "call":
            name = e[1][-1]
            if name == "static_range_check":
                args = [self.run(a) for a in e[2][:4]]
                sub = RSSym(self.helpers, self.chk, self.checked)
                sub.path = self.path
                sub.env = {"value": self.coerce(args[0], TYPES["i64"]), "min": self.coerce(args[1], TYPES["i32"]),
                           "range": self.coerce(args[2], TYPES["u32"]), "scale": self.coerce(args[3], TYPES["u8"])}
                v = sub.exec_body(rx.P(rx.tokenize("{" + self.chk + "}")).block())
                self.err = bor(self.err, sub.err)
                self.panic = bor(self.panic, sub.panic)
                # what follows the call only runs when the check passed
                self.path = band(self.path, bnot(sub.err))
                return v
            if name == "__checked_sub_or_fail":
                x, y = self.unify(self.run(e[2][0]), self.run(e[2][1]))
                r = N("sub", (x.n, y.n), x.ty[0])
                saved, self.checked = self.checked, True
                ov = self.overflow("sub", x, y, r)
                self.checked = saved
                self.err = bor(self.err, band(self.path, ov))
                self.path = band(self.path, bnot(ov))
                return rx.Val(r, x.ty)
            if name == "bitmask64":
                e = ("call", ["__bitmask64"], e[2])
        return super().run(e)


def check_fn(text):
    body = rt.fn_body(text, "static_range_check")
    body, n = re.subn(r"match\s+value\.checked_sub\(([^)]*\([^)]*\))\)\s*\{\s*Some\(biased\)\s*=>\s*biased\s*,\s*None\s*=>\s*\{[^}]*\}\s*\}",
                      r"__checked_sub_or_fail(value, \1)", body)
    if n != 1:
        raise Untranslatable("static_range_check: the checked_sub match has changed")
    body = clean(body)
    body, n = re.subn(r"\bOk\(biased\)", "biased", body)
    if n != 1:
        raise Untranslatable("static_range_check: result not found")
    return body


def arm_parts(text, name):
    m = re.search(r"Command::" + name + r"\(([^)]*)\)\s*=>\s*\{", text)
    if not m:
        raise Untranslatable(f"arm Command::{name} not found")
    params = tuple(p.strip() for p in m.group(1).split(","))
    if params != PARAMS[name]:
        raise Untranslatable(f"arm Command::{name} binds {params}, expected {PARAMS[name]}")
    i = m.end() - 1
    arm = text[i + 1:rt.matching(text, i) - 1]
    k = arm.find("let mut imm_encoder")
    if k < 0:
        raise Untranslatable(f"{name}: no ImmediateEncoder")
    prelude = re.sub(r"let\s+span\s*=\s*value\.span\(\)\s*;", "", arm[:k])
    if not re.search(r"imm_encoder\.gather_fields\(data\.data\.commands,\s*i\s*\+\s*1,\s*&mut\s+statics\)\s*;", arm):
        raise Untranslatable(f"{name}: gather_fields call has changed")
    ms = re.search(r"Some\(static_value\)\s*=>\s*\{", arm)
    if not ms:
        raise Untranslatable(f"{name}: no literal branch")
    j = ms.end() - 1
    return prelude, clean(arm[j + 1:rt.matching(arm, j) - 1])


def offset_parts(text, kind):
    """the literal branch of `Command::Offset(relocation_type)` for one relocation kind: (bits, scaling) from the kind's arm, the shared tail"""
    m = re.search(r"Command::Offset\(relocation_type\)\s*=>\s*\{", text)
    if not m:
        raise Untranslatable("arm Command::Offset not found")
    i = m.end() - 1
    arm = text[i + 1:rt.matching(text, i) - 1]
    mm = re.search(r"match\s+relocation_type\s*\{", arm)
    if not mm:
        raise Untranslatable("Offset: no match on the relocation type")
    j = mm.end() - 1
    e = rt.matching(arm, j)
    kinds = arm[j + 1:e - 1]
    mk = re.search(r"Relocation::" + kind + r"\s*=>\s*\{\s*bits\s*=\s*(\d+);\s*scaling\s*=\s*(\d+);", kinds)
    if not mk:
        raise Untranslatable(f"Offset: arm Relocation::{kind} not found")
    tail = arm[e:]
    k = tail.find("let mut imm_encoder")
    if k < 0 or not re.search(r"imm_encoder\.gather_fields\(commands,\s*0,\s*&mut\s+statics\)\s*;", tail):
        raise Untranslatable("Offset: ImmediateEncoder / gather_fields call has changed")
    prelude = re.sub(r"let\s+span\s*=\s*value\.span\(\)\s*;", "", tail[:k])
    ms = re.search(r"Some\(static_value\)\s*=>\s*\{", tail)
    if not ms:
        raise Untranslatable("Offset: no literal branch")
    q = ms.end() - 1
    return int(mk.group(1)), int(mk.group(2)), prelude, clean(tail[q + 1:rt.matching(tail, q) - 1])


def gather_parts(text):
    body = rt.fn_body(text, "gather_fields")
    out = {}
    for kind in ("BitRange", "RBitRange"):
        m = re.search(r"Some\(&Command::" + kind + r"\(offset,\s*bits,\s*scaling\)\)\s*=>\s*\{", body)
        if not m:
            raise Untranslatable(f"gather_fields: arm {kind} not found")
        i = m.end() - 1
        arm = body[i + 1:rt.matching(body, i) - 1]
        k = arm.find("if let Some(v) = self.static_value")
        if k < 0:
            raise Untranslatable(f"gather_fields {kind}: no literal branch")
        prelude = arm[:k]
        j = arm.index("{", k)
        blk = arm[j + 1:rt.matching(arm, j) - 1]
        mm = re.fullmatch(r"\s*let\s+slice\s*=\s*(.*?);\s*statics\.push\(\(offset,\s*slice\)\);\s*", blk, flags=re.S)
        if not mm:
            raise Untranslatable(f"gather_fields {kind}: literal branch is not `let slice = …; statics.push((offset, slice));`")
        out[kind] = (prelude, mm.group(1))
    return out


def translate_group(text, helpers, chk, gather, cmd, fields, nwords):
    name = cmd[0]
    s = RSSym(helpers, chk, True)
    if name == "Offset":
        bits, scaling, prelude, body = offset_parts(text, cmd[1])
        s.env["bits"] = rx.Val(const(bits, 8), TYPES["u8"])
        s.env["scaling"] = rx.Val(const(scaling, 8), TYPES["u8"])
    else:
        args = [int(x) for x in cmd[1:]]
        prelude, body = arm_parts(text, name)
        for p, a in zip(PARAMS[name], args):
            s.env[p] = rx.Val(const(a, 8), TYPES["u8"])
    if prelude.strip():
        for st in rx.P(rx.tokenize("{" + prelude + " ; }")).block()[1]:
            s.exec_stmt(st)
    s.env["static_value"] = rx.Val(rx.var("v", 64), TYPES["i64"])
    s.exec_body(rx.P(rx.tokenize("{" + body + "}")).block())
    ok = fold(bnot(s.err))
    overflow = fold(s.panic)
    words = [const(0, 32) for _ in range(nwords)]
    for (rounded, offset, bits, shift) in fields:
        pre, expr = gather["RBitRange" if rounded else "BitRange"]
        g = RSSym(helpers, chk, True)
        for p, a in (("offset", offset), ("bits", bits), ("scaling", shift)):
            g.env[p] = rx.Val(const(a, 8), TYPES["u8"])
        g.env["v"] = rx.Val(rx.var("v", 64), TYPES["i64"])
        if pre.strip():
            for st in rx.P(rx.tokenize("{" + pre + " ; }")).block()[1]:
                g.exec_stmt(st)
        val = g.coerce(g.run(rx.parse(expr)), TYPES["u32"])
        if val.ty[0] != 32:
            raise Untranslatable("gather_fields: slice is not a u32")
        overflow = bor(overflow, fold(g.panic))
        w = offset >> 5
        if w >= nwords:
            raise Untranslatable(f"field offset {offset} beyond the {nwords} template word(s)")
        words[w] = N("or", (words[w], N("shl", (val.n, const(offset & 0x1F, 32)), 32)), 32)
    return ok, [fold(w) for w in words], fold(overflow)


def groups_of_table():
    import encgen
    import rustdebug
    import tables
    equiv = tables.rv_offset_equiv_from_source()
    ranges = tables.rv_pair_range_from_source()
    out, seen = [], set()
    for r in tables.dump("riscv"):
        if "m" not in r:
            continue
        op = rustdebug.parse(r["op"])
        t = op["template"]
        nwords = 1 if t[0] in ("Single", "Compressed") else 2 if t[0] == "Double" else len(t[1])
        for idx, g in sorted(encgen.rv_groups(op["commands"], equiv, ranges).items()):
            cmd = g["cmd"]
            if not isinstance(cmd, tuple) or (cmd[0] not in PARAMS and cmd[0] != "Offset") or not g["fields"]:
                continue
            fields = "[" + ", ".join(f"⟨{'true' if rd else 'false'}, {o}, {l}, {s}⟩" for (rd, o, l, s) in g["fields"]) + "]"
            key = (g["check"], fields, nwords)
            if key in seen:
                continue
            seen.add(key)
            out.append((g["check"], fields, nwords, cmd, g["fields"]))
    return out


def translate_all():
    text = rt.strip_comments(open(SRC).read())
    common = rt.strip_comments(open("/repo/plugin/src/common.rs").read())
    helpers = {"__bitmask32": immtrans.prepare(rt.fn_body(common, "bitmask")), "__bitmask64": immtrans.prepare(rt.fn_body(common, "bitmask64"))}
    chk = check_fn(text)
    gather = gather_parts(text)
    if not re.search(r"for\s*\(offset,\s*value\)\s*in\s+statics\s*\{\s*templates\[\(offset\s*>>\s*5\)\s*as\s+usize\]\s*\|=\s*value\s*<<\s*\(offset\s*&\s*0x1F\);\s*\}", text):
        raise Untranslatable("the loop applying the static fields to the template words has changed")
    out = []
    for (check, fields, nwords, cmd, raw) in groups_of_table():
        try:
            ok, words, ovf = translate_group(text, helpers, chk, gather, cmd, raw, nwords)
        except Untranslatable as ex:
            raise Untranslatable(f"{cmd} {fields}: {ex}")
        except (KeyError, IndexError, ValueError, AttributeError, TypeError) as ex:
            raise Untranslatable(f"{cmd} {fields}: translator failed with {type(ex).__name__}: {ex}")
        out.append((check, fields, nwords, ok, words, ovf))
    return out


def emit_lean(tr, path):
    L = ["import Std.Tactic.BVDecide", "import DynasmVerif.Model.RvEnc", "import DynasmVerif.Model.EncUtil", "",
         "/-! GENERATED by lib/rvstatictrans.py from the text of the literal-operand branches of the riscv compile_instruction, static_range_check and",
         "ImmediateEncoder::gather_fields (plugin/src/arch/riscv/compiler.rs), one definition per distinct (check, fields) of today's table — do not edit. -/",
         "set_option maxRecDepth 100000", "set_option maxHeartbeats 1000000",
         "namespace DynasmVerif.RvStatic", "open DynasmVerif.RvEnc DynasmVerif.Enc", ""]
    names = []
    for k, (check, fields, nwords, ok, words, ovf) in enumerate(tr):
        L.append(f"/-- `{check}` `{fields}` -/")
        L.append(f"def rs{k}_ok (v : BitVec 64) : Bool := {rx.lean(ok)}")
        L.append(f"def rs{k}_overflow (v : BitVec 64) : Bool := {rx.lean(ovf)}")
        for j, w in enumerate(words):
            L.append(f"def rs{k}_w{j} (v : BitVec 64) : BitVec 32 := {rx.lean(w)}")
        L.append(f"theorem rs{k}_is_model (v : BitVec 64) :")
        conj = [f"rs{k}_ok v = Check.ok ({check}) v"] + [f"rs{k}_w{j} v = contrib {fields} v {j}" for j in range(nwords)] + [f"rs{k}_overflow v = false"]
        L.append("    " + " ∧\n    ".join(conj) + " := by")
        L.append(f"  simp only [rs{k}_ok, rs{k}_overflow, " + ", ".join(f"rs{k}_w{j}" for j in range(nwords)) + "]")
        L.append("  rv_unfold")
        L.append("  bv_decide (config := { timeout := 120 })")
        L.append("")
        names.append(f"rs{k}_is_model")
    L.append("end DynasmVerif.RvStatic")
    text = "\n".join(L) + "\n"
    if not os.path.exists(path) or open(path).read() != text:
        open(path, "w").write(text)
    return names


if __name__ == "__main__":
    tr = translate_all()
    print(len(tr), "groups")
    for (check, fields, nwords, ok, words, ovf) in tr[:5]:
        print(check, fields, nwords, "| ok:", rx.lean(ok)[:160], "| w0:", rx.lean(words[0])[:120], "| ovf:", rx.lean(ovf)[:60])
    print(len(emit_lean(tr, "/tmp/RvStatic.lean")), "theorems")
