"""T-bits translator for the relocation code of the run-time crate (C05): the TEXT of
`runtime/src/relocations.rs` (`RelocationSize::{write_value, read_value}`, `fits_signed_bitfield`),
`runtime/src/aarch64.rs` (`op_mask`, `encode`, `write_value`, `read_value`) and `runtime/src/riscv.rs` (`bitsize`, `write_value`,
`read_value`) is specialised per enum variant (the arm of every `match self` that the variant takes), symbolically executed with
Rust integer semantics (lib/rustexpr.py: typed wrapping arithmetic, casts, signed/unsigned shifts and comparisons; `checked` =
arithmetic overflow panics as in a debug build) and printed as Lean `BitVec` functions into `Generated/RelocCode.lean`:

    <fmt>_err   old v : Bool        -- write_value returns Err(ImpossibleRelocation)
    <fmt>_panic old v : Bool        -- an arithmetic overflow check would fire (debug builds)
    <fmt>_val   old v : BitVec 64   -- the little-endian word of size() bytes left in the buffer
    <fmt>_rd    w     : BitVec 64   -- read_value
    <fmt>_rdpanic w   : Bool

`Props/C05Spec.lean` proves, for every format and every input, that these are the hand-written model `Model/Reloc.lean` about which the
C05 theorems are stated (and that no overflow check can fire). An edit of the Rust text therefore changes the Lean definitions
themselves. The same IR is evaluated in Python and compared with the compiled implementation (harness/rt) on every run, which
validates the translator (parser, specialiser, semantics) against rustc.

Anything outside the recognised subset raises Untranslatable: the check then reports a broken correspondence, it never guesses."""
import os
import re

import rustexpr as rx
from rustexpr import N, Untranslatable, const, band, bor, bnot, btrue, bfalse, fold, TYPES

SRC = "/repo/runtime/src"


# ------------------------------------------------------------------------------------------- text level
def strip_comments(text):
    text = re.sub(r"//[^\n]*", "", text)
    return re.sub(r"/\*.*?\*/", "", text, flags=re.S)


def matching(text, i, open_="{", close="}"):
    """index just past the bracket that closes the one at text[i]"""
    assert text[i] == open_, (text[i:i + 20], open_)
    depth = 0
    for j in range(i, len(text)):
        c = text[j]
        if c == open_:
            depth += 1
        elif c == close:
            depth -= 1
            if depth == 0:
                return j + 1
    raise Untranslatable("unbalanced brackets")


def impl_block(text, header_re):
    m = re.search(header_re, text)
    if not m:
        raise Untranslatable(f"no impl block matching {header_re}")
    i = text.index("{", m.end() - 1)
    return text[i:matching(text, i)]


def fn_body(text, name):
    """inner text of the body of `fn name(...)` (first occurrence in text)"""
    m = re.search(r"\bfn\s+" + name + r"\s*\(", text)
    if not m:
        raise Untranslatable(f"fn {name} not found")
    j = matching(text, m.end() - 1, "(", ")")
    i = text.index("{", j)
    return text[i + 1:matching(text, i) - 1]


def split_arms(inner):
    """arms of a match body: list of (pattern text, body text, is_block)"""
    arms, i, n = [], 0, len(inner)
    while True:
        while i < n and inner[i] in " \t\r\n,":
            i += 1
        if i >= n:
            return arms
        k = inner.index("=>", i)
        pat = inner[i:k].strip()
        j = k + 2
        while inner[j] in " \t\r\n":
            j += 1
        if inner[j] == "{":
            e = matching(inner, j)
            arms.append((pat, inner[j:e], True))
            i = e
        else:
            depth, e = 0, j
            while e < n:
                c = inner[e]
                if c in "({[":
                    depth += 1
                elif c in ")}]":
                    depth -= 1
                elif c == "," and depth == 0:
                    break
                e += 1
            arms.append((pat, inner[j:e].strip(), False))
            i = e


def pattern_takes(pat, variant):
    """variant: ('B',) or ('Plain', size name) for the architecture enums, ('Size', name) for RelocationSize"""
    for alt in (a.strip() for a in pat.split("|")):
        if alt == "_":
            return True
        m = re.fullmatch(r"(?:Self|RelocationSize)::(\w+)(?:\((\w+)\))?", alt)
        if not m:
            raise Untranslatable(f"match pattern {alt!r}")
        if variant[0] == "Size":
            if m.group(1) == variant[1] and m.group(2) is None:
                return True
        elif m.group(1) == variant[0]:
            return True
    return False


def specialise(body, variant):
    """replace every `match self { … }` / `if let Self::Plain(s) = self { … }` by what `variant` takes"""
    while True:
        m = re.search(r"\bif\s+let\s+Self::(\w+)\((\w+)\)\s*=\s*self\s*", body)
        if m:
            i = body.index("{", m.end() - 1)
            e = matching(body, i)
            rest = body[e:]
            rest = re.sub(r"^\s*;", "", rest)
            body = body[:m.start()] + (body[i + 1:e - 1] if m.group(1) == variant[0] else "") + rest
            continue
        m = re.search(r"\bmatch\s+\*?self\s*", body)
        if not m:
            return body
        i = body.index("{", m.end() - 1)
        e = matching(body, i)
        arms = split_arms(body[i + 1:e - 1])
        taken = next(((b, blk) for p, b, blk in arms if pattern_takes(p, variant)), None)
        if taken is None:
            raise Untranslatable(f"no arm of a `match self` takes {variant}")
        text, is_block = taken
        before = body[:m.start()].rstrip()
        in_expr = before.endswith(("=", "(", "return"))
        if in_expr:
            rep = text if is_block else "(" + text + ")"
        else:
            rest = body[e:]
            tail = rest.strip() == ""
            if is_block:
                rep = text[1:-1]
                if not tail and rep.strip() and not rep.rstrip().endswith((";", "}")):
                    rep = rep.rstrip() + ";"
            else:
                rep = text + ("" if tail else ";")
            rest = re.sub(r"^\s*;", "", rest)
            body = body[:m.start()] + rep + rest
            continue
        body = body[:m.start()] + rep + body[e:]


def _split_top(t):
    parts, depth, cur = [], 0, ""
    for c in t:
        if c in "([{":
            depth += 1
        elif c in ")]}":
            depth -= 1
        if c == "," and depth == 0:
            parts.append(cur.strip())
            cur = ""
        else:
            cur += c
    if cur.strip():
        parts.append(cur.strip())
    return parts


def _top_level(t):
    out, depth = "", 0
    for c in t:
        if c in "([{":
            depth += 1
        elif c in ")]}":
            depth -= 1
        elif depth == 0:
            out += c
    return out


IMPOSSIBLE = r"ImpossibleRelocation\s*\{\s*\}"
REWRITES = [
    (r"i64::try_from\((\w+)\)\s*\.map_err\(\|_\|\s*" + IMPOSSIBLE + r"\s*\)\s*\?", r"(\1 as i64)"),     # isize → i64: 64-bit host
    (r"(i8|i16|i32)::try_from\((\w+)\)\s*\.map_err\(\|_\|\s*" + IMPOSSIBLE + r"\s*\)\s*\?", r"__try_\1(\2)"),
    (r"(\w+)\.checked_add\(([^()]+)\)\.ok_or\(\s*" + IMPOSSIBLE + r"\s*\)\s*\?", r"__checked_add(\1, \2)"),
    (r"return\s+Err\(\s*" + IMPOSSIBLE + r"\s*\)", r"__fail()"),
    (r"return\s+([^;]+);", r"__ret(\1);"),
    (r"\blet\s+(?:mut\s+)?\w+\s*;", ""),
    (r"LittleEndian::read_(u|i)(16|32|64)\(\s*buf\s*\)", r"__rd\1\2_0"),
    (r"LittleEndian::read_(u|i)(16|32|64)\(\s*&buf\[\.\.4\]\s*\)", r"__rd\1\2_0"),
    (r"LittleEndian::read_(u|i)(16|32|64)\(\s*&buf\[4\.\.\]\s*\)", r"__rd\1\2_4"),
    (r"LittleEndian::write_(?:u|i)(16|32|64)\(\s*buf\s*,", r"__wr\1_0("),
    (r"LittleEndian::write_(?:u|i)(16|32|64)\(\s*&mut\s+buf\[\.\.4\]\s*,", r"__wr\1_0("),
    (r"LittleEndian::write_(?:u|i)(16|32|64)\(\s*&mut\s+buf\[4\.\.\]\s*,", r"__wr\1_4("),
    (r"\bbuf\[0\]\s*=(?!=)", r"__out8_0 ="),
    (r"\bbuf\[0\]", r"__rdu8_0"),
    (r"\bOk\(\(\)\)", ""),
    (r"\bunreachable!\(\)", "__unreachable()"),
    (r"\)\s*\?", ")"),                                   # `s.write_value(..)?`, `self.encode(value)?`: errors are merged by the inliner
]


def rewrite(body):
    for pat, rep in REWRITES:
        body = re.sub(pat, rep, body)
    if "ImpossibleRelocation" in body or "LittleEndian" in body or "buf" in re.sub(r"\b\w+\.(?:write|read)_value\(buf", "", body):
        raise Untranslatable("unrecognised buffer access or error construction: " + " ".join(body.split())[:200])
    return body


# ------------------------------------------------------------------------------------------- sources
class Sources:
    def __init__(self, root=SRC):
        rd = lambda f: strip_comments(open(os.path.join(root, f)).read())
        self.rel, self.a64, self.rv = rd("relocations.rs"), rd("aarch64.rs"), rd("riscv.rs")
        self.x64, self.x86 = rd("x64.rs"), rd("x86.rs")
        self.size_impl = impl_block(self.rel, r"impl\s+Relocation\s+for\s+RelocationSize\s*\{")
        self.a64_inh = impl_block(self.a64, r"impl\s+Aarch64Relocation\s*\{")
        self.a64_impl = impl_block(self.a64, r"impl\s+Relocation\s+for\s+Aarch64Relocation\s*\{")
        self.rv_inh = impl_block(self.rv, r"impl\s+RiscvRelocation\s*\{")
        self.rv_impl = impl_block(self.rv, r"impl\s+Relocation\s+for\s+RiscvRelocation\s*\{")
        self.fits = rewrite(fn_body(self.rel, "fits_signed_bitfield"))
        m = re.search(r"enum\s+RelocationSize\s*\{([^}]*)\}", self.rel)
        self.sizes = {k: int(v) for k, v in re.findall(r"(\w+)\s*=\s*(\d+)", m.group(1))}
        if sorted(self.sizes.values()) != [1, 2, 4, 8]:
            raise Untranslatable(f"RelocationSize discriminants {self.sizes}")
        body = " ".join(fn_body(self.size_impl, "size").split())
        if body != "*self as usize":
            raise Untranslatable(f"RelocationSize::size is `{body}`")
        # the x64 / x86 relocation types must delegate to their size
        for name, text, ty in (("x64", self.x64, "X64Relocation"), ("x86", self.x86, "X86Relocation")):
            blk = impl_block(text, r"impl\s+Relocation\s+for\s+" + ty + r"\s*\{")
            w = " ".join(fn_body(blk, "write_value").split())
            r = " ".join(fn_body(blk, "read_value").split())
            s = " ".join(fn_body(blk, "size").split())
            if (w, r, s) != ("self.size.write_value(buf, value)", "self.size.read_value(buf)", "self.size.size()"):
                raise Untranslatable(f"{ty} no longer delegates to its RelocationSize: write `{w}` read `{r}` size `{s}`")

    def variants(self, text, enum):
        m = re.search(r"enum\s+" + enum + r"\s*\{([^}]*)\}", text)
        return re.findall(r"\b([A-Z]\w*)\b(?:\(\w+\))?\s*,", m.group(1) + ",")


# ------------------------------------------------------------------------------------------- symbolic execution
class Diverge(Exception):
    pass


class RSym(rx.Sym):
    """statement executor on top of rustexpr.Sym: early returns, Err returns, out-words, inlined helper functions"""

    def __init__(self, src, variant, checked=True):
        super().__init__({}, checked)
        self.src, self.variant = src, variant
        self.err = bfalse()
        self.rets = []          # (path condition, Val)
        self.out = {}           # (width, byte offset) → node

    # -- helpers
    def bind(self, name, node, ty):
        self.env[name] = rx.Val(node, TYPES[ty])

    def diverges(self, block):
        st = block[1]
        if not st:
            return False
        last = st[-1]
        return last[0] == "expr" and last[1][0] == "call" and last[1][1][-1] in ("__fail", "__ret", "__unreachable")

    def exec_body(self, block):
        """statements of a function body; returns the final expression's value (or None)"""
        for st in block[1]:
            self.exec_stmt(st)
            if st[0] == "expr" and st[1][0] == "call" and st[1][1][-1] in ("__fail", "__ret", "__unreachable"):
                return None         # unconditional at this level: what follows is dead code
        return self.run(block[2]) if block[2] is not None else None

    def exec_stmt(self, st):
        if st[0] == "let":
            v = self.run(st[3])
            if st[2] is not None:
                ty = TYPES.get(st[2])
                if ty is None:
                    raise Untranslatable(f"type {st[2]}")
                v = self.coerce(v, ty)
                if v.ty[0] != ty[0]:
                    raise Untranslatable(f"let {st[1]}: {st[2]} = value of width {v.ty[0]}")
                v = rx.Val(v.n, ty)
            self.env[st[1]] = v
        elif st[0] == "assign":
            rhs = self.run(st[3])
            if st[2] == "=":
                cur = self.env.get(st[1])
                if cur is not None and cur.ty is not None and rhs.ty is None:
                    rhs = self.coerce(rhs, cur.ty)
                self.env[st[1]] = rhs
            else:
                self.env[st[1]] = self.binop(st[2][:-1], self.env[st[1]], rhs)
        else:
            e = st[1]
            if e[0] == "if":
                c = self.run(e[1])
                if c.ty != TYPES["bool"]:
                    raise Untranslatable("if condition is not a bool")
                if e[3] is not None or e[2][2] is not None:
                    raise Untranslatable("if/else or valued if in statement position")
                cn = fold(c.n)
                if cn.op == "bconst" and not self.diverges(e[2]):
                    # a condition on the table's constants: the block runs or it does not
                    if cn.k:
                        for s2 in e[2][1]:
                            self.exec_stmt(s2)
                    return
                if not self.diverges(e[2]):
                    raise Untranslatable("conditional block that falls through")
                saved = self.path
                self.path = band(saved, cn)
                for s2 in e[2][1]:
                    self.exec_stmt(s2)
                self.path = band(saved, bnot(cn))
            else:
                self.run(e)

    # -- expression level additions
    def run(self, e):
        k = e[0]
        if k == "path" and len(e[1]) == 1 and e[1][0] in ("true", "false"):
            return rx.Val(btrue() if e[1][0] == "true" else bfalse(), TYPES["bool"])
        if k == "path" and len(e[1]) == 1 and e[1][0] not in self.env:
            m = re.fullmatch(r"__rd(u|i)(8|16|32|64)_(0|4)", e[1][0])
            if m:
                w, off = int(m.group(2)), int(m.group(3))
                node = N("trunc", (N("lshr", (rx.var("old", 64), const(8 * off, 64)), 64),), w) if w < 64 else rx.var("old", 64)
                return rx.Val(node, TYPES[("i" if m.group(1) == "i" else "u") + m.group(2)])
        if k == "block":
            # block in expression position: own scope, may contain guards
            saved = dict(self.env)
            v = self.exec_body(e)
            self.env = saved
            return v
        if k == "call":
            name = e[1][-1]
            if name == "__fail":
                self.err = bor(self.err, self.path)
                return rx.Val(None, "never")
            if name == "__unreachable":
                self.add_panic(btrue())
                return rx.Val(None, "never")
            if name == "__ret":
                v = self.run(e[2][0])
                self.rets.append((self.path, v))
                return rx.Val(None, "never")
            if name == "Ok":
                return self.run(e[2][0])
            m = re.fullmatch(r"__wr(16|32|64)_(0|4)", name)
            if m:
                v = self.run(e[2][0])
                w = int(m.group(1))
                if v.ty is None or v.ty[0] != w:
                    raise Untranslatable(f"{name} of a value of type {v.ty}")
                self.out[(w, int(m.group(2)))] = v.n
                return None
            m = re.fullmatch(r"__try_(i8|i16|i32)", name)
            if m:
                v = self.run(e[2][0])
                ty = TYPES[m.group(1)]
                t = N("trunc", (v.n,), ty[0])
                back = N("sext", (t,), v.ty[0])
                if not v.ty[1]:
                    raise Untranslatable("try_from of an unsigned value")
                self.err = bor(self.err, band(self.path, bnot(N("eq", (back, v.n), 0))))
                return rx.Val(t, ty)
            if name == "__checked_add":
                x, y = self.unify(self.run(e[2][0]), self.run(e[2][1]))
                r = N("add", (x.n, y.n), x.ty[0])
                saved, self.checked = self.checked, True
                ov = self.overflow("add", x, y, r)
                self.checked = saved
                self.err = bor(self.err, band(self.path, ov))
                return rx.Val(r, x.ty)
            if name == "from" and len(e[1]) == 2 and e[1][0] in TYPES:
                v = self.run(e[2][0])
                ty = TYPES[e[1][0]]
                if v.ty is None or v.ty[0] > ty[0] or (v.ty[1] and not ty[1]):
                    raise Untranslatable(f"{e[1][0]}::from of {v.ty}")
                return rx.Val(v.n if v.ty[0] == ty[0] else N("sext" if v.ty[1] else "zext", (v.n,), ty[0]), ty)
            if name == "fits_signed_bitfield":
                args = [self.run(a) for a in e[2]]
                return self.inline(self.src.fits, {"value": self.coerce(args[0], TYPES["i64"]), "bits": self.coerce(args[1], TYPES["u8"])}, self.variant)
        if k == "method" and e[1] == ("path", ["s"]) and e[2] in ("write_value", "read_value", "size"):
            if self.variant[0] != "Plain":
                raise Untranslatable("`s` outside a Plain arm")
            size_variant = ("Size", self.variant[1])
            if e[2] == "size":
                return rx.Val(const(self.src.sizes[self.variant[1]], 64), TYPES["usize"])
            params = {}
            if e[2] == "write_value":
                params["value"] = self.coerce(self.run(e[3][1]), TYPES["isize"])
            body = rewrite(specialise(fn_body(self.src.size_impl, e[2]), size_variant))
            return self.inline(body, params, size_variant)
        if k == "method" and e[1] == ("path", ["self"]):
            if e[2] == "op_mask":
                return self.inline(rewrite(specialise(fn_body(self.src.a64_inh, "op_mask"), self.variant)), {}, self.variant, ret_ty="u32")
            if e[2] == "encode":
                return self.inline(rewrite(specialise(fn_body(self.src.a64_inh, "encode"), self.variant)),
                                   {"value": self.coerce(self.run(e[3][0]), TYPES["isize"])}, self.variant, ret_ty="u32")
            if e[2] == "bitsize":
                body = rewrite(specialise(fn_body(self.src.rv_inh, "bitsize"), self.variant))
                t = body.strip().rstrip(";").strip()
                while t.startswith("(") and t.endswith(")") and matching(t, 0, "(", ")") == len(t) and "," not in _top_level(t[1:-1]) :
                    t = t[1:-1].strip()
                if not (t.startswith("(") and t.endswith(")") and matching(t, 0, "(", ")") == len(t)):
                    raise Untranslatable(f"bitsize arm `{t}`")
                parts = _split_top(t[1:-1])
                if len(parts) != 2:
                    raise Untranslatable(f"bitsize arm `{t}`")
                a = self.inline(parts[0], {}, self.variant, ret_ty="u8")
                b = self.inline(parts[1], {}, self.variant, ret_ty="u8")
                return rx.Val((a, b), "tuple")
        return super().run(e)

    def inline(self, body_text, params, variant, ret_ty=None):
        """execute a helper's body under the current path; errors, panics and out-words flow into this execution"""
        sub = RSym(self.src, variant, self.checked)
        sub.env = dict(params)
        sub.path = self.path
        final = sub.exec_body(rx.P(rx.tokenize("{" + body_text + "}")).block())
        self.err = bor(self.err, sub.err)
        self.panic = bor(self.panic, sub.panic)
        self.out.update(sub.out)
        for key in [k for k in sub.env if k.startswith("__out")]:
            self.env[key] = sub.env[key]
        v = final
        if v is not None and v.ty is None and ret_ty:
            v = self.coerce(v, TYPES[ret_ty])
        for cond, rv in reversed(sub.rets):
            if rv.ty is None and ret_ty:
                rv = self.coerce(rv, TYPES[ret_ty])
            if v is None:
                v = rv
            else:
                if rv.ty == TYPES["bool"]:
                    c = cond
                    v = rx.Val(N("ite", (c, rv.n, v.n), 0) if False else bor(band(c, rv.n), band(bnot(c), v.n)), TYPES["bool"])
                else:
                    v = rx.Val(N("ite", (cond, rv.n, v.n), v.ty[0]), v.ty)
        return v


def tuple_let(body):
    """`let (a, b) = E;` → `let __t = E; ` is not expressible in the subset: bind the components through the executor instead"""
    return re.sub(r"let\s*\(\s*(\w+)\s*,\s*(\w+)\s*\)\s*=\s*self\.bitsize\(\)\s*;", r"__bind2(\1, \2, self.bitsize());", body)


class Top(RSym):
    def run(self, e):
        if e[0] == "call" and e[1][-1] == "__bind2":
            t = self.run(e[2][2])
            if t.ty != "tuple":
                raise Untranslatable("tuple binding of a non-tuple")
            self.env[e[2][0][1][0]], self.env[e[2][1][1][0]] = t.n
            return None
        return super().run(e)


def out_word(sym):
    """the size()-byte little-endian word the function leaves in the buffer, as a 64-bit container"""
    pieces = dict(sym.out)
    if "__out8_0" in sym.env:
        pieces[(8, 0)] = sym.env["__out8_0"].n
    if not pieces:
        raise Untranslatable("write_value writes nothing")
    word, covered = None, 0
    for (w, off), node in sorted(pieces.items(), key=lambda kv: kv[0][1]):
        if 8 * off != covered:
            raise Untranslatable(f"buffer writes leave a gap or overlap at byte {off}")
        z = node if w == 64 else N("zext", (node,), 64)
        if off:
            z = N("shl", (z, const(8 * off, 64)), 64)
        word = z if word is None else N("or", (word, z), 64)
        covered += w
    return word, covered // 8


def translate_write(src, arch, variant, checked=True):
    s = Top(src, variant, checked)
    s.bind("value", rx.var("v", 64), "isize")
    if arch == "size":
        body = fn_body(src.size_impl, "write_value")
    else:
        body = fn_body(src.a64_impl if arch == "a64" else src.rv_impl, "write_value")
    body = tuple_let(rewrite(specialise(body, variant)))
    s.exec_body(rx.P(rx.tokenize("{" + body + "}")).block())
    if s.rets:
        # `return s.write_value(buf, value)` of the Plain arms: the inliner has already merged its effects
        if len(s.rets) != 1 or s.rets[0][1] is not None and s.rets[0][1].n is not None:
            raise Untranslatable("write_value with a valued early return")
    word, size = out_word(s)
    return {"err": fold(s.err), "panic": fold(s.panic), "val": fold(word), "size": size}


def translate_read(src, arch, variant, checked=True):
    s = Top(src, variant, checked)
    if arch == "size":
        body = fn_body(src.size_impl, "read_value")
    else:
        body = fn_body(src.a64_impl if arch == "a64" else src.rv_impl, "read_value")
    body = rewrite(specialise(body, variant))
    final = s.exec_body(rx.P(rx.tokenize("{" + body + "}")).block())
    v = final
    if s.rets:
        if len(s.rets) != 1 or final is not None:
            raise Untranslatable("read_value with conditional returns")
        v = s.rets[0][1]
    if v is None or v.ty is None or v.ty[0] != 64:
        raise Untranslatable(f"read_value result of type {None if v is None else v.ty}")
    if fold(s.err).op != "bconst" or fold(s.err).k:
        raise Untranslatable("read_value can fail")
    return {"rd": fold(v.n), "rdpanic": fold(s.panic)}


def size_fn(src, arch, variant):
    """size() of the format, from the text"""
    if arch == "size":
        return src.sizes[variant[1]]
    body = specialise(fn_body(src.a64_impl if arch == "a64" else src.rv_impl, "size"), variant)
    body = " ".join(body.split()).rstrip(";").strip()
    while body.startswith("(") and body.endswith(")") and matching(body, 0, "(", ")") == len(body):
        body = body[1:-1].strip()
    if body == "s.size()":
        return src.sizes[variant[1]]
    m = re.fullmatch(r"RelocationSize::(\w+)\.size\(\)", body)
    if m:
        return src.sizes[m.group(1)]
    if re.fullmatch(r"\d+", body):
        return int(body)
    raise Untranslatable(f"size() arm `{body}`")


# the formats, named as in the line protocol; third component: the constructor of Model.Reloc.Fmt they must equal
FORMATS = ([(f"x.{n}", "size", ("Size", s), f"p{n}") for s, n in (("Byte", 1), ("Word", 2), ("DWord", 4), ("QWord", 8))] +
           [(f"a64.{v}", "a64", (v,), "a64" + v) for v in ("B", "BCOND", "ADR", "ADRP", "TBZ")] +
           [(f"a64.P{n}", "a64", ("Plain", s), f"p{n}") for s, n in (("Byte", 1), ("Word", 2), ("DWord", 4), ("QWord", 8))] +
           [(f"rv.{v}", "rv", (v,), "rv" + v) for v in ("B", "J", "BC", "JC", "HI20", "LO12", "LO12S", "SPLIT32", "SPLIT32S")] +
           [(f"rv.P{n}", "rv", ("Plain", s), f"p{n}") for s, n in (("Byte", 1), ("Word", 2), ("DWord", 4), ("QWord", 8))])


def translate_all(root=SRC, checked=True):
    src = Sources(root)
    known_a64 = {"B", "BCOND", "ADR", "ADRP", "TBZ", "Plain"}
    known_rv = {"B", "J", "BC", "JC", "HI20", "LO12", "LO12S", "SPLIT32", "SPLIT32S", "Plain"}
    va, vr = set(src.variants(src.a64, "Aarch64Relocation")), set(src.variants(src.rv, "RiscvRelocation"))
    if va != known_a64 or vr != known_rv:
        raise Untranslatable(f"relocation variants changed: aarch64 {sorted(va ^ known_a64)} riscv {sorted(vr ^ known_rv)}")
    out = {}
    for name, arch, variant, fmt in FORMATS:
        try:
            d = translate_write(src, arch, variant, checked)
            d.update(translate_read(src, arch, variant, checked))
            d["declared_size"] = size_fn(src, arch, variant)
        except Untranslatable as ex:
            raise Untranslatable(f"{name}: {ex}")
        except (KeyError, IndexError, ValueError, AttributeError, TypeError) as ex:
            raise Untranslatable(f"{name}: translator failed with {type(ex).__name__}: {ex}")
        d["fmt"] = fmt
        out[name] = d
    return out


def evaluate_write(d, old, v):
    env = {"old": old & (2 ** 64 - 1), "v": v & (2 ** 64 - 1)}
    if rx.ev(d["panic"], env):
        return "panic"
    if rx.ev(d["err"], env):
        return "err"
    return "ok %d" % rx.ev(d["val"], env)


def evaluate_read(d, w):
    env = {"old": w & (2 ** 64 - 1)}
    if rx.ev(d["rdpanic"], env):
        return "panic"
    return rx.sx(rx.ev(d["rd"], env), 64)


def lean_ident(name):
    return name.replace(".", "_")


def emit_lean(tr, path):
    L = ["import DynasmVerif.Model.Reloc", "",
         "/-! GENERATED by lib/reloctrans.py from the text of runtime/src/{relocations,aarch64,riscv,x64,x86}.rs — do not edit. -/", "",
         "namespace DynasmVerif.RelocCode", "open DynasmVerif.Reloc", "set_option maxRecDepth 100000", ""]
    names = []
    for name, d in tr.items():
        n = lean_ident(name)
        names.append(n)
        L.append(f"def {n}_err (old v : BitVec 64) : Bool := {rx.lean(d['err'])}")
        L.append(f"def {n}_panic (old v : BitVec 64) : Bool := {rx.lean(d['panic'])}")
        L.append(f"def {n}_val (old v : BitVec 64) : BitVec 64 := {rx.lean(d['val'])}")
        L.append(f"def {n}_rd (old : BitVec 64) : BitVec 64 := {rx.lean(d['rd'])}")
        L.append(f"def {n}_rdpanic (old : BitVec 64) : Bool := {rx.lean(d['rdpanic'])}")
        L.append("")
    L.append("/-- the formats of the source text (x64/x86 delegate to `RelocationSize`: `x_N`) -/")
    L.append("inductive CodeFmt\n  | " + " | ".join(names) + "\nderiving DecidableEq, Repr")
    L.append("")
    for fn, ty, args in (("err", "Bool", "old v"), ("panic", "Bool", "old v"), ("val", "BitVec 64", "old v"), ("rd", "BitVec 64", "old"), ("rdpanic", "Bool", "old")):
        sig = "(old v : BitVec 64)" if args == "old v" else "(old : BitVec 64)"
        L.append(f"def CodeFmt.{fn} (c : CodeFmt) {sig} : {ty} :=\n  match c with")
        for n in names:
            L.append(f"  | .{n} => {n}_{fn} {args}")
        L.append("")
    L.append("/-- the model format each source format must behave as -/")
    L.append("def CodeFmt.fmt : CodeFmt → Fmt")
    for (name, d), n in zip(tr.items(), names):
        L.append(f"  | .{n} => .{d['fmt']}")
    L.append("")
    L.append("/-- `size()` as declared in the source, and the number of bytes `write_value` writes -/")
    L.append("def CodeFmt.declaredSize : CodeFmt → Nat")
    for (name, d), n in zip(tr.items(), names):
        L.append(f"  | .{n} => {d['declared_size']}")
    L.append("def CodeFmt.writtenSize : CodeFmt → Nat")
    for (name, d), n in zip(tr.items(), names):
        L.append(f"  | .{n} => {d['size']}")
    L.append("")
    L.append("/-- `write_value` as the source text defines it: `none` = `Err(ImpossibleRelocation)` -/")
    L.append("def CodeFmt.write (c : CodeFmt) (old v : BitVec 64) : Option (BitVec 64) :=\n  if c.err old v then none else some (c.val old v)")
    L.append("")
    L.append("def CodeFmt.all : List CodeFmt := [" + ", ".join("." + n for n in names) + "]")
    L.append("")
    allnames = " ".join(f"{n}_err {n}_panic {n}_val {n}_rd {n}_rdpanic" for n in names)
    L.append("macro \"unfold_reloc_code\" : tactic => `(tactic| simp only [CodeFmt.write, CodeFmt.err, CodeFmt.panic, CodeFmt.val, CodeFmt.rd, CodeFmt.rdpanic, CodeFmt.fmt, "
             + ", ".join(allnames.split()) + "])")
    L.append("")
    L.append("end DynasmVerif.RelocCode")
    text = "\n".join(L) + "\n"
    old = open(path).read() if os.path.exists(path) else None
    if old != text:
        open(path, "w").write(text)
    return names


if __name__ == "__main__":
    import sys
    tr = translate_all(sys.argv[1] if len(sys.argv) > 1 else SRC)
    for name, d in tr.items():
        print(name, d["size"], d["declared_size"], "err:", rx.lean(d["err"])[:150])
        print("   val:", rx.lean(d["val"])[:200])
        print("   rd :", rx.lean(d["rd"])[:200], "| panic:", rx.lean(d["panic"])[:80], rx.lean(d["rdpanic"])[:80])
