"""T-bits translator for the aarch64 special-immediate encoders (C14): the TEXT of the six functions of
`plugin/src/arch/aarch64/encoding_helpers.rs` (with `bitmask`/`bitmask64` of plugin/src/common.rs inlined) and of the three copies in
`runtime/src/aarch64.rs` is executed symbolically (lib/rustexpr.py + the statement executor of lib/reloctrans.py; `Option` results:
`None` = a path condition, `?` on `checked_div` = division by zero; debug-build overflow checks collected under the path they are on) and
printed into lean/DynasmVerif/Generated/ImmCode.lean as `<copy>_<fn>_ok / _panic / _val`. `Props/C14Code.lean` proves each equal to the
hand-written model `Model/A64Imm.lean` (about which the C14 theorems are stated), for every input, and that no overflow check can fire.
`count_ones`, `trailing_zeros`, `rotate_left`, `rotate_right(1)` are printed as the unrolled bit-vector definitions `popc`, `ctz`, `rotl`,
`rotr1` of Model/A64Imm (trusted to be what the Rust intrinsics compute; the exhaustive 2^32 sweep of C14 exercises them on every run)."""
import os
import re

import rustexpr as rx
from rustexpr import N, Untranslatable, const, band, bor, bnot, btrue, bfalse, fold, TYPES
import reloctrans as rt

PLUGIN = "/repo/plugin/src"
RUNTIME = "/repo/runtime/src"

# name in the source, parameter type (f32 is handled as its bit pattern), result width, model namespace
PLUGIN_FNS = [("encode_logical_immediate_32bit", "u32", 16, "L32"), ("encode_logical_immediate_64bit", "u64", 16, "L64"),
              ("encode_wide_immediate_32bit", "u32", 32, "W32"), ("encode_wide_immediate_64bit", "u64", 32, "W64"),
              ("encode_stretched_immediate", "u64", 32, "Stretched"), ("encode_floating_point_immediate", "u32", 8, "Float")]
RUNTIME_FNS = [("encode_logical_immediate_32bit", "u32", 16, "L32"), ("encode_logical_immediate_64bit", "u64", 16, "L64"),
               ("encode_floating_point_immediate", "u32", 8, "Float")]

REWRITES = [
    (r"\(\s*(\w+)\s*\)\s*\.checked_div\(([^()]*(?:\([^()]*\))?[^()]*)\)\s*\?", r"__div_or_none(\1, \2)"),
    (r"(\w+)\.checked_shl\(([^()]*(?:\([^()]*\))?[^()]*)\)\.unwrap_or\(0\)", r"__shl_or_zero(\1, \2)"),
    (r"return\s+None\s*;", r"__fail();"),
    (r"\bbitmask64\(", "__bitmask64("),
    (r"\bbitmask\(", "__bitmask32("),
]


class ISym(rt.RSym):
    """RSym + Option results, if/else values, the bit-counting intrinsics"""

    def __init__(self, helpers, checked=True):
        super().__init__(None, ("none",), checked)
        self.helpers = helpers

    def run(self, e):
        k = e[0]
        if k == "path" and e[1] == ["None"]:
            self.err = bor(self.err, self.path)
            return rx.Val(None, "never")
        if k == "if" and e[3] is not None:
            c = self.run(e[1])
            if c.ty != TYPES["bool"]:
                raise Untranslatable("if condition is not a bool")
            cn = fold(c.n)
            saved = self.path
            self.path = band(saved, cn)
            v1 = self.run(e[2])
            self.path = band(saved, bnot(cn))
            v2 = self.run(e[3])
            self.path = saved
            if v1 is None or v2 is None:
                raise Untranslatable("if/else without values")
            if v1.ty == "never":
                return v2
            if v2.ty == "never":
                return v1
            if v1.ty is None and v2.ty is None:
                raise Untranslatable("if/else of untyped literals")
            v1, v2 = self.unify(v1, v2)
            if v1.ty == TYPES["bool"]:
                return rx.Val(bor(band(cn, v1.n), band(bnot(cn), v2.n)), v1.ty)
            return rx.Val(N("ite", (cn, v1.n, v2.n), v1.ty[0]), v1.ty)
        if k == "call":
            name = e[1][-1]
            if name == "Some":
                return self.run(e[2][0])
            if name == "__div_or_none":
                x, y = self.unify(self.run(e[2][0]), self.run(e[2][1]))
                zero = N("eq", (y.n, const(0, y.ty[0])), 0)
                self.err = bor(self.err, band(self.path, zero))
                self.path = band(self.path, bnot(zero))
                return rx.Val(N("udiv", (x.n, y.n), x.ty[0]), x.ty)
            if name == "__shl_or_zero":
                x = self.run(e[2][0])
                y = self.coerce(self.run(e[2][1]), TYPES["u32"])
                w = x.ty[0]
                amount = y.n if y.ty[0] == w else N("zext" if y.ty[0] < w else "trunc", (y.n,), w)
                inr = N("ult", (y.n, const(w, y.ty[0])), 0)
                return rx.Val(N("ite", (inr, N("shl", (x.n, amount), w), const(0, w)), w), x.ty)
            if name in ("__bitmask32", "__bitmask64"):
                a = self.coerce(self.run(e[2][0]), TYPES["u8"])
                sub = ISym(self.helpers, self.checked)
                sub.env = {"scale": a}
                sub.path = self.path
                v = sub.exec_body(rx.P(rx.tokenize("{" + self.helpers[name] + "}")).block())
                self.panic = bor(self.panic, sub.panic)
                return v
        if k == "method":
            _, recv, name, args = e
            if name == "count_ones":
                v = self.run(recv)
                return rx.Val(N("popc", (v.n,), 32), TYPES["u32"])
            if name in ("rotate_left", "rotate_right"):
                v = self.run(recv)
                a = self.coerce(self.run(args[0]), TYPES["u32"])
                return rx.Val(N("rotl" if name == "rotate_left" else "rotr", (v.n, a.n), v.ty[0]), v.ty)
        return super().run(e)


def prepare(body):
    for pat, rep in REWRITES:
        body = re.sub(pat, rep, body)
    if "checked_" in body or "unwrap" in body or "None" in re.sub(r"\bNone\b(?=\s*\})", "", body).replace("__div_or_none", ""):
        # a remaining `None` is fine only as the tail of an else-branch (handled by the executor)
        pass
    return body


def translate_fn(text, name, param_ty, helpers, checked=True, arg=None):
    """arg: an IR value to use for the parameter instead of the free variable `value` (for callers that inline the function)"""
    body = prepare(rt.fn_body(text, name))
    s = ISym(helpers, checked)
    s.env = {"value": arg if arg is not None else rx.Val(rx.var("value", TYPES[param_ty][0]), TYPES[param_ty])}
    v = s.exec_body(rx.P(rx.tokenize("{" + body + "}")).block())
    if v is None or v.ty in (None, "never") or not isinstance(v.ty, tuple):
        raise Untranslatable(f"{name}: no result value")
    if s.rets:
        raise Untranslatable(f"{name}: valued early return")
    return {"ok": fold(bnot(s.err)), "panic": fold(s.panic), "val": fold(v.n), "w": v.ty[0]}


def translate_all(checked=True):
    strip = rt.strip_comments
    helpers_src = strip(open(os.path.join(PLUGIN, "common.rs")).read())
    helpers = {"__bitmask32": prepare(rt.fn_body(helpers_src, "bitmask")), "__bitmask64": prepare(rt.fn_body(helpers_src, "bitmask64"))}
    # `u32::from(scale)` of a u8
    for k in helpers:
        helpers[k] = helpers[k]
    ptext = strip(open(os.path.join(PLUGIN, "arch/aarch64/encoding_helpers.rs")).read())
    rtext = strip(open(os.path.join(RUNTIME, "aarch64.rs")).read())
    out = {}
    for copy, text, fns in (("p", ptext, PLUGIN_FNS), ("r", rtext, RUNTIME_FNS)):
        for (name, ty, w, ns) in fns:
            try:
                d = translate_fn(text, name, ty, helpers, checked)
            except Untranslatable as ex:
                raise Untranslatable(f"{copy}:{name}: {ex}")
            except (KeyError, IndexError, ValueError, AttributeError, TypeError) as ex:
                raise Untranslatable(f"{copy}:{name}: translator failed with {type(ex).__name__}: {ex}")
            if d["w"] != w:
                raise Untranslatable(f"{copy}:{name}: result width {d['w']}, expected {w}")
            d.update(ns=ns, inw=TYPES[ty][0], name=name)
            out[f"{copy}_{ns}"] = d
    return out


def emit_lean(tr, path):
    L = ["import DynasmVerif.Model.A64Imm", "",
         "/-! GENERATED by lib/immtrans.py from the text of plugin/src/arch/aarch64/encoding_helpers.rs (p_*) and runtime/src/aarch64.rs (r_*) — do not edit. -/", "",
         "namespace DynasmVerif.ImmCode", "set_option maxRecDepth 100000", ""]
    for key, d in tr.items():
        L.append(f"def {key}_ok (value : BitVec {d['inw']}) : Bool := {rx.lean(d['ok'])}")
        L.append(f"def {key}_panic (value : BitVec {d['inw']}) : Bool := {rx.lean(d['panic'])}")
        L.append(f"def {key}_val (value : BitVec {d['inw']}) : BitVec {d['w']} := {rx.lean(d['val'])}")
        L.append("")
    L.append("end DynasmVerif.ImmCode")
    text = "\n".join(L) + "\n"
    if not os.path.exists(path) or open(path).read() != text:
        open(path, "w").write(text)


def evaluate(d, value):
    env = {"value": value}
    if rx.ev(d["panic"], env):
        return "panic"
    if not rx.ev(d["ok"], env):
        return None
    return rx.ev(d["val"], env)


if __name__ == "__main__":
    tr = translate_all()
    for k, d in tr.items():
        print(k, "ok:", rx.lean(d["ok"])[:160])
        print("    panic:", rx.lean(d["panic"])[:200])
        print("    val:", rx.lean(d["val"])[:200])
    emit_lean(tr, "/verif/lean/DynasmVerif/Generated/ImmCode.lean")
    # a few concrete values
    for v in (0x80000001, 0x55555555, 0, 0xFFFFFFFF, 0x00FF00FF, 6):
        print(hex(v), evaluate(tr["p_L32"], v), evaluate(tr["r_L32"], v))
