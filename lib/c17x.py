"""C17, macro half: data directives and `.align` as lowered by the macro (plugin/src/directive.rs + serialize.rs) emit exactly the
little-endian representation of each value in order, and the fewest filler bytes to the next multiple — with run-time values, through
the REAL macro and rustc (harness/dyn) on the plain vector assembler; with literal values, folded by the plugin (harness/plug)."""
import json
import struct

import common
import dyn

DIRS = [("u8", "u8", 8, False), ("u16", "u16", 16, False), ("u32", "u32", 32, False), ("u64", "u64", 64, False),
        ("i8", "i8", 8, True), ("i16", "i16", 16, True), ("i32", "i32", 32, True), ("i64", "i64", 64, True)]
DEFAULT_FILL = {"x64": 0x90, "x86": 0x90, "aarch64": 0, "riscv64": 0, "riscv32": 0}


def boundary(bits, signed):
    if signed:
        return [0, 1, -1, (1 << (bits - 1)) - 1, -(1 << (bits - 1)), 0x12 if bits == 8 else 0x1234 if bits == 16 else 0x12345678 if bits == 32 else 0x123456789ABCDEF0 - (1 << 64) + (1 << 64) - (1 << 63)]
    return [0, 1, (1 << bits) - 1, 1 << (bits - 1), 0xA5 if bits == 8 else 0xBEEF if bits == 16 else 0xDEADBEEF if bits == 32 else 0x0123456789ABCDEF]


def f32_bits_of_decimal(text):
    """bits of the f32 nearest to the decimal literal (ONE rounding, ties to even) — python's own float() rounds to f64 first"""
    from fractions import Fraction
    x = Fraction(text)
    guess = struct.unpack("<I", struct.pack("<f", float(x)))[0]
    best = None
    for b in (guess - 1, guess, guess + 1):
        if b < 0 or (b & 0x7F800000) == 0x7F800000:
            continue
        v = Fraction(struct.unpack("<f", struct.pack("<I", b))[0])
        key = (abs(v - x), b & 1)
        if best is None or key < best[0]:
            best = (key, b)
    return best[1]


# literals written in a data directive: ordinary ones, ones a hair away from the midpoint of two neighbouring f32 values (where rounding
# through f64 first gives the other neighbour), subnormals and the extremes
F32_LITERALS = ["1.5", "0.1", "-2.25", "3.14159265358979", "16777217.000000001", "16777216.999999999", "-16777217.000000001", "16777218.999999999",
                "1.00000005960464477539062500001", "1.00000017881393432617187499999", "0.33333334", "1e-45", "3.4028235e38", "8388609.49999999999"]
F64_LITERALS = ["1.5", "0.1", "-2.25", "1.7976931348623157e308", "5e-324", "2.2250738585072011e-308", "9007199254740993.0", "0.30000000000000004"]


def le(v, bits):
    return (v & ((1 << bits) - 1)).to_bytes(bits // 8, "little")


def sweep(run, thorough):
    rng = common.SplitMix(run.seed ^ 0xC17)
    stats = {"runtime_cases": 0, "runtime_runs": 0, "literal_lines": 0, "align_cases": 0}
    archs = ["x64", "aarch64", "riscv64"] + (["x86", "riscv32"] if thorough else [])
    cases, expect = [], []
    # ---- run-time values: every directive alone, in pairs (order!), and a long mixed sequence, on every architecture front end
    for arch in archs:
        seqs = [[d] for d in DIRS] + [[DIRS[i], DIRS[(i + 3) % 8]] for i in range(8)] + [list(DIRS)] + [[DIRS[rng.below(8)] for _ in range(6)] for _ in range(6 if thorough else 2)]
        for seq in seqs:
            names = [f"a{i}" for i in range(len(seq))]
            body = f"; .arch {arch} " + " ".join(f"; .{d[0]} {n}" for d, n in zip(seq, names))
            cases.append(dict(body=body, vars=[(n, d[1]) for d, n in zip(seq, names)]))
            expect.append(("seq", seq))
            # the comma form: several values of one directive
            if len(seq) == 1:
                d = seq[0]
                cases.append(dict(body=f"; .arch {arch} ; .{d[0]} a0, a1, a2", vars=[("a0", d[1]), ("a1", d[1]), ("a2", d[1])]))
                expect.append(("seq", [d, d, d]))
        cases.append(dict(body=f"; .arch {arch} ; .f32 a0 ; .f64 a1 ; .f32 a0", vars=[("a0", "f32"), ("a1", "f64")]))
        expect.append(("float", None))
        if arch in ("x64", "aarch64"):
            for lit in F32_LITERALS:
                cases.append(dict(body=f"; .arch {arch} ; .f32 {lit} ; .u8 0xEE", vars=[]))
                expect.append(("float-literal", le(f32_bits_of_decimal(lit), 32) + b"\xee"))
            for lit in F64_LITERALS:
                cases.append(dict(body=f"; .arch {arch} ; .f64 {lit} ; .u8 0xEE", vars=[]))
                expect.append(("float-literal", struct.pack("<d", float(lit)) + b"\xee"))
            cases.append(dict(body=f"; .arch {arch} ; .f32 {', '.join(F32_LITERALS[:5])} ; .f64 {', '.join(F64_LITERALS[:3])}", vars=[]))
            expect.append(("float-literal", b"".join(le(f32_bits_of_decimal(l), 32) for l in F32_LITERALS[:5]) + b"".join(struct.pack("<d", float(l)) for l in F64_LITERALS[:3])))
        # .align: `pre` filler-independent bytes first, then the alignment (default and explicit filler)
        for pre in (0, 1, 3, 7, 8, 15, 17):
            for al in (1, 2, 3, 4, 8, 16, 24, 64):
                for fill in (None, 0xCC):
                    body = f"; .arch {arch} " + "".join("; .u8 0x11 " for _ in range(pre)) + f"; .align a0" + (f", {fill}" if fill is not None else "") + " ; .u8 0xEE"
                    cases.append(dict(body=body, vars=[("a0", "usize")]))
                    expect.append(("align", (arch, pre, al, fill)))
    ok, log = dyn.build("C17X", cases)
    if not ok:
        run.violation("broken-correspondence", {"kind": "harness-build", "harness": "dyn-directives"}, "the generated crate with data directives does not build against the working tree",
                      {"log": log[-3000:]}, found_input=False)
        return stats
    stats["runtime_cases"] = len(cases)
    reqs, meta = [], []
    for i, (kind, info) in enumerate(expect):
        if kind == "seq":
            combos = []
            maxn = max(len(boundary(d[2], d[3])) for d in info)
            for k in range(maxn):
                combos.append([boundary(d[2], d[3])[k % len(boundary(d[2], d[3]))] for d in info])
            combos.append([(rng.next() & ((1 << d[2]) - 1)) - ((1 << d[2]) if d[3] and (rng.next() & 1) else 0) if d[3] else rng.next() & ((1 << d[2]) - 1) for d in info])
            for vals in combos:
                vals = [max(-(1 << (d[2] - 1)), min(v, (1 << (d[2] - 1)) - 1)) if d[3] else v for v, d in zip(vals, info)]
                reqs.append((i, vals))
                meta.append(b"".join(le(v, d[2]) for v, d in zip(vals, info)))
        elif kind == "float-literal":
            reqs.append((i, []))
            meta.append(info)
        elif kind == "float":
            for (f, g) in ((1.5, -2.25), (0.0, 1e300), (-0.0, 3.14159)):
                fb = struct.unpack("<I", struct.pack("<f", f))[0]
                gb = struct.unpack("<Q", struct.pack("<d", g))[0]
                reqs.append((i, [fb, gb]))
                meta.append(le(fb, 32) + le(gb, 64) + le(fb, 32))
        else:
            arch, pre, al, fill = info
            stats["align_cases"] += 1
            pad = (-pre) % al
            f = DEFAULT_FILL[arch] if fill is None else fill
            reqs.append((i, [al]))
            meta.append(bytes([0x11]) * pre + bytes([f]) * pad + b"\xee")
    res = dyn.run("C17X", reqs)
    for (i, vals), want, (st, b) in zip(reqs, meta, res):
        stats["runtime_runs"] += 1
        if st != "ok" or b != want:
            kind = expect[i][0]
            run.violation("failing-input", {"kind": "directive-bytes", "what": kind, "case": cases[i]["body"][:60]},
                          f"dynasm!(ops {cases[i]['body']}) with values {vals} emits {b.hex() if st == 'ok' else 'panic: ' + str(b)[:80]}, expected {want.hex()} "
                          + ("(little-endian representation of each value in order)" if kind != "align" else "(fewest filler bytes to the next multiple)"),
                          {"stream": "dyn", "case": cases[i], "values": vals})
    # ---- literal values: folded by the plugin into constant statements
    lreqs, lwant = [], []
    for arch in archs:
        for d in DIRS:
            for v in boundary(d[2], d[3]):
                lreqs.append(f"cl ; .arch {arch} ; .{d[0]} {v}")
                lwant.append(le(v, d[2]))
        lreqs.append(f"cl ; .arch {arch} ; .u8 1, 2, 3 ; .u16 0x0405 ; .i32 -2 ; .u64 0x1122334455667788")
        lwant.append(bytes([1, 2, 3]) + le(0x0405, 16) + le(-2, 32) + le(0x1122334455667788, 64))
    _, out = common.sh([common.PLUG, "exec"], inp="\n".join(lreqs) + "\n", timeout=600)
    for req, want, (_, a) in zip(lreqs, lwant, common.answers_of_impl(out)):
        stats["literal_lines"] += 1
        got = None
        if a.startswith("ok "):
            got = b""
            for s in json.loads(a[3:]):
                k, _, v = s.partition("|")
                if k in ("c1", "c2", "c4", "c8"):
                    got += int(v, 16).to_bytes(int(k[1]), "little")
                elif k in ("es1", "es2", "es4", "es8", "eu1", "eu2", "eu4", "eu8"):
                    try:
                        val = int(eval(v.replace("u8", "").replace("i8", ""), {"__builtins__": {}}, {}))
                        got += (val & ((1 << (8 * int(k[2]))) - 1)).to_bytes(int(k[2]), "little")
                    except Exception:      # noqa
                        got = None
                        break
                elif k == "x":
                    got += bytes.fromhex(v)
                else:
                    got = None
                    break
        if got is not None and got != want:
            run.violation("failing-input", {"kind": "directive-literal-bytes", "line": req[3:60]}, f"`{req[3:]}` lowers to {got.hex()}, expected {want.hex()}", {"stream": "plug", "input": [req]})
    return stats
