"""The pinned (text → bytes) pairs of the repository's generated tests (testing/tests/gen_*/*.rs.gen), parsed as data."""
import glob
import os
import re

import common

TEST = re.compile(r"dynasm!\(ops\s*((?:;[^\n]*\n\s*)+)\);.*?assert_eq!\(hex, \"([^\"]*)\"", re.S)


def load(arch_dir):
    """arch_dir in gen_x64 | gen_aarch64 | gen_riscv32 | gen_riscv64. Returns [(body, bytes, file)] with body like
    `; .arch x64 ; mov rax, rbx`"""
    out = []
    for path in sorted(glob.glob(os.path.join(common.REPO, "testing/tests", arch_dir, "*.rs.gen"))):
        src = open(path).read()
        for m in TEST.finditer(src):
            lines = [l.strip() for l in m.group(1).split("\n") if l.strip()]
            body = " ".join(lines)
            hexs = [h.strip() for h in m.group(2).split(",") if h.strip()]
            try:
                bs = bytes(int(h, 16) for h in hexs)
            except ValueError:
                continue
            out.append((body, bs, os.path.basename(path)))
    return out
