#![allow(dead_code, unused_imports, unused_variables, unexpected_cfgs, non_upper_case_globals, unused_mut, unreachable_patterns, non_snake_case)]
//! The dynasm plugin compiled as a library (see build.rs: the plugin's lib.rs is included at the crate root so that its
//! `crate::…` paths resolve) + a line-protocol executor on top of it (module `harness`).
include!(concat!(env!("OUT_DIR"), "/plugin_src/lib.rs"));

mod harness;

fn main() {
    harness::main();
}
