//! Line-protocol executor on top of the plugin-as-library.
//!
//!   plug exec                      stdin: `cl <body>` / `ser <body>` / `feat <arch> <spelling>` / `enc <fn> <value>` …, one answer per request
//!   plug dump <aarch64|riscv|x64>  the instruction table as JSON lines (Debug rendering of every entry)
//!   plug extract <aarch64|riscv>   `extract_opmap()` (per-form templates with documented operand constraints)
use std::io::{self, BufRead, Write};
use std::panic::{catch_unwind, AssertUnwindSafe};

use crate::common::{Size, Stmt, Relocation};
use crate::Dynasm;

fn json_str(s: &str) -> String {
    let mut o = String::from("\"");
    for c in s.chars() {
        match c {
            '"' => o.push_str("\\\""),
            '\\' => o.push_str("\\\\"),
            '\n' => o.push_str("\\n"),
            '\t' => o.push_str("\\t"),
            c if (c as u32) < 0x20 => o.push_str(&format!("\\u{:04x}", c as u32)),
            c => o.push(c),
        }
    }
    o.push('"');
    o
}

fn toks<T: quote::ToTokens>(t: &T) -> String {
    t.to_token_stream().to_string().split_whitespace().collect::<Vec<_>>().join(" ")
}

fn hexs(bs: &[u8]) -> String { bs.iter().map(|b| format!("{:02x}", b)).collect() }

fn reloc(kind: &str, name: String, r: &Relocation) -> String {
    format!("{}|{}|{}|{}|{}|{}", kind, name, toks(&r.target_offset), r.field_offset, r.ref_offset, toks(&r.kind))
}

pub fn show_stmt(s: &Stmt) -> String {
    match s {
        Stmt::Const(v, size) => format!("c{}|{:x}", size.in_bytes(), v),
        Stmt::ExprUnsigned(e, size) => format!("eu{}|{}", size.in_bytes(), toks(e)),
        Stmt::ExprSigned(e, size) => format!("es{}|{}", size.in_bytes(), toks(e)),
        Stmt::Extend(bs) => format!("x|{}", hexs(bs)),
        Stmt::ExprExtend(e) => format!("ee|{}", toks(e)),
        Stmt::Align(a, w) => format!("al|{}|{}", toks(a), toks(w)),
        Stmt::GlobalLabel(n) => format!("gl|{}", n),
        Stmt::LocalLabel(n) => format!("ll|{}", n),
        Stmt::DynamicLabel(e) => format!("dl|{}", toks(e)),
        Stmt::GlobalJumpTarget(n, r) => reloc("gj", n.to_string(), r),
        Stmt::ForwardJumpTarget(n, r) => reloc("fj", n.to_string(), r),
        Stmt::BackwardJumpTarget(n, r) => reloc("bj", n.to_string(), r),
        Stmt::DynamicJumpTarget(e, r) => reloc("dj", toks(e), r),
        Stmt::BareJumpTarget(e, r) => reloc("xj", toks(e), r),
        Stmt::Stmt(ts) => format!("st|{}", toks(ts)),
    }
}

pub enum Compiled {
    Ok(Vec<Stmt>),
    Reject(Vec<String>),
    ParseError(String),
    Panic(String),
}

/// compile the body of a `dynasm!` invocation (without the leading assembler expression)
pub fn compile(body: &str) -> Compiled {
    let src = format!("ops {}", body);
    let _ = proc_macro_error2::take_errors();
    let r = catch_unwind(AssertUnwindSafe(|| {
        let ts: Result<proc_macro2::TokenStream, _> = src.parse();
        match ts {
            Ok(ts) => syn::parse2::<Dynasm>(ts).map_err(|e| format!("{}", e)),
            Err(e) => Err(format!("lex: {}", e)),
        }
    }));
    let errs = proc_macro_error2::take_errors();
    match r {
        Ok(Ok(d)) => if errs.is_empty() { Compiled::Ok(d.stmts) } else { Compiled::Reject(errs) },
        Ok(Err(e)) => if errs.is_empty() { Compiled::ParseError(e) } else { let mut v = errs; v.push(e); Compiled::Reject(v) },
        Err(p) => {
            let m = if let Some(s) = p.downcast_ref::<String>() { s.clone() } else if let Some(s) = p.downcast_ref::<&str>() { s.to_string() } else { "?".into() };
            // an error was already recorded by emit_error! before the panic: the real macro entry point resumes the panic after
            // collecting the diagnostics, so the user sees a compile error either way; reported as a rejection that also panicked
            if errs.is_empty() { Compiled::Panic(m) } else { let mut v = errs; v.push(format!("(then panicked: {})", m)); Compiled::Reject(v) }
        }
    }
}

fn answer_compile(body: &str) -> String {
    match compile(body) {
        Compiled::Ok(stmts) => format!("ok [{}]", stmts.iter().map(|s| json_str(&show_stmt(s))).collect::<Vec<_>>().join(",")),
        Compiled::Reject(errs) => format!("reject [{}]", errs.iter().map(|s| json_str(s)).collect::<Vec<_>>().join(",")),
        Compiled::ParseError(e) => format!("parse-error {}", json_str(&e)),
        Compiled::Panic(m) => format!("panic {}", json_str(&m)),
    }
}

/// `which <aarch64 instruction>`: the table entry the matcher takes for the line, as `<mnemonic>#<index in the mnemonic's entry list>`
fn which_a64(line: &str) -> String {
    use crate::arch::aarch64 as a;
    let _ = proc_macro_error2::take_errors();
    let line = line.to_string();
    let r = catch_unwind(AssertUnwindSafe(move || -> Result<String, String> {
        let ts: proc_macro2::TokenStream = line.parse().map_err(|e| format!("lex: {}", e))?;
        let parser = |input: syn::parse::ParseStream| -> syn::Result<String> {
            let dctx = crate::DynasmContext::new();
            let mut stmts = Vec::new();
            let mut state = crate::State { stmts: &mut stmts, invocation_context: &dctx };
            let mut ctx = a::Context { state: &mut state };
            let (instruction, args) = a::parser::parse_instruction(&mut ctx, input)?;
            let name = instruction.ident.to_string();
            // swallow whatever the instruction parser left (it stops at `;`)
            while !input.is_empty() { let _: proc_macro2::TokenTree = input.parse()?; }
            match a::matching::match_instruction(&mut ctx, &instruction, args) {
                Ok(m) => {
                    let list = a::aarch64data::get_mnemonic_data(&name).unwrap_or(&[]);
                    match list.iter().position(|d| std::ptr::eq(d, m.data)) {
                        Some(i) => Ok(format!("{}#{}", name, i)),
                        None => Ok(format!("{}#?", name)),
                    }
                }
                Err(e) => Ok(format!("nomatch {}", json_str(&e.unwrap_or_default()))),
            }
        };
        syn::parse::Parser::parse2(parser, ts).map_err(|e| format!("{}", e))
    }));
    let _ = proc_macro_error2::take_errors();
    match r {
        Ok(Ok(s)) => s,
        Ok(Err(e)) => format!("parse-error {}", json_str(&e)),
        Err(_) => "panic".into(),
    }
}

fn answer_serialize(body: &str) -> String {
    match compile(body) {
        Compiled::Ok(stmts) => {
            let name: proc_macro2::TokenTree = proc_macro2::TokenTree::Ident(proc_macro2::Ident::new("ops", proc_macro2::Span::call_site()));
            let r = catch_unwind(AssertUnwindSafe(|| crate::serialize::serialize(&name, stmts)));
            match r {
                // raw Display of the token stream: collapsing whitespace would also collapse the spaces INSIDE byte-string literals
                // (0x20 0x20 in the emitted bytes)
                Ok(ts) => format!("ok {}", json_str(&ts.to_string())),
                Err(_) => "panic \"serialize\"".into(),
            }
        }
        Compiled::Reject(errs) => format!("reject [{}]", errs.iter().map(|s| json_str(s)).collect::<Vec<_>>().join(",")),
        Compiled::ParseError(e) => format!("parse-error {}", json_str(&e)),
        Compiled::Panic(m) => format!("panic {}", json_str(&m)),
    }
}

fn enc(ws: &[&str]) -> String {
    use crate::arch::aarch64::encoding_helpers as h;
    let v = |i: usize| -> Option<u64> { ws.get(i).and_then(|s| s.parse::<u64>().ok()) };
    let opt = |o: Option<u64>| match o { Some(x) => format!("some {}", x), None => "none".into() };
    match ws.get(1).copied() {
        Some("p.logical32") => v(2).map(|x| opt(h::encode_logical_immediate_32bit(x as u32).map(u64::from))).unwrap_or("bad-op".into()),
        Some("p.logical64") => v(2).map(|x| opt(h::encode_logical_immediate_64bit(x).map(u64::from))).unwrap_or("bad-op".into()),
        Some("p.wide32") => v(2).map(|x| opt(h::encode_wide_immediate_32bit(x as u32).map(u64::from))).unwrap_or("bad-op".into()),
        Some("p.wide64") => v(2).map(|x| opt(h::encode_wide_immediate_64bit(x).map(u64::from))).unwrap_or("bad-op".into()),
        Some("p.stretched") => v(2).map(|x| opt(h::encode_stretched_immediate(x).map(u64::from))).unwrap_or("bad-op".into()),
        Some("p.float") => v(2).map(|x| opt(h::encode_floating_point_immediate(f32::from_bits(x as u32)).map(u64::from))).unwrap_or("bad-op".into()),
        Some("r.logical32") => v(2).map(|x| opt(dynasmrt::aarch64::encode_logical_immediate_32bit(x as u32).map(u64::from))).unwrap_or("bad-op".into()),
        Some("r.logical64") => v(2).map(|x| opt(dynasmrt::aarch64::encode_logical_immediate_64bit(x).map(u64::from))).unwrap_or("bad-op".into()),
        Some("r.float") => v(2).map(|x| opt(dynasmrt::aarch64::encode_floating_point_immediate(f32::from_bits(x as u32)).map(u64::from))).unwrap_or("bad-op".into()),
        _ => "bad-op".into(),
    }
}

/// `encsweep <fn>`: every 32-bit input of a 32-bit encoder (16 threads); answers with all accepted `value:encoding` pairs in value order
fn encsweep(name: &str) -> String {
    use crate::arch::aarch64::encoding_helpers as h;
    let f: fn(u32) -> Option<u64> = match name {
        "p.logical32" => |x| h::encode_logical_immediate_32bit(x).map(u64::from),
        "r.logical32" => |x| dynasmrt::aarch64::encode_logical_immediate_32bit(x).map(u64::from),
        "p.wide32" => |x| h::encode_wide_immediate_32bit(x).map(u64::from),
        "p.float" => |x| h::encode_floating_point_immediate(f32::from_bits(x)).map(u64::from),
        "r.float" => |x| dynasmrt::aarch64::encode_floating_point_immediate(f32::from_bits(x)).map(u64::from),
        _ => return "bad-op".into(),
    };
    let threads = 16u64;
    let per = (1u64 << 32) / threads;
    let handles: Vec<_> = (0..threads).map(|t| std::thread::spawn(move || {
        let mut out: Vec<(u32, u64)> = Vec::new();
        let mut panicked = 0u64;
        for v in (t * per)..((t + 1) * per) {
            match catch_unwind(|| f(v as u32)) {
                Ok(Some(e)) => out.push((v as u32, e)),
                Ok(None) => (),
                Err(_) => panicked += 1,
            }
        }
        (out, panicked)
    })).collect();
    let mut all = Vec::new();
    let mut panics = 0;
    for h in handles { let (o, p) = h.join().unwrap(); all.extend(o); panics += p; }
    let body: Vec<String> = all.iter().map(|(v, e)| format!("{}:{}", v, e)).collect();
    format!("n={} panics={} {}", all.len(), panics, body.join(" "))
}

/// `feat a,b,c`: riscv `parse_features` on the given identifiers → the resulting ExtensionFlags bits and the diagnostics
fn feat(rest: &str) -> String {
    let _ = proc_macro_error2::take_errors();
    let idents: Result<Vec<syn::Ident>, _> = rest.split(',').map(|s| s.trim()).filter(|s| !s.is_empty()).map(|s| syn::parse_str::<syn::Ident>(s)).collect();
    let Ok(idents) = idents else { return "bad-ident".into() };
    let r = catch_unwind(AssertUnwindSafe(|| crate::arch::riscv::parse_features(&idents)));
    let errs = proc_macro_error2::take_errors();
    match r {
        Ok(flags) => format!("{} errors={}", flags.bits(), errs.len()),
        Err(_) => "panic".into(),
    }
}

fn exec() {
    let stdin = io::stdin();
    let stdout = io::stdout();
    let mut out = io::BufWriter::new(stdout.lock());
    for line in stdin.lock().lines() {
        let line = line.unwrap();
        let t = line.trim();
        if t.is_empty() || t.starts_with('#') || t.starts_with("= ") { continue; }
        writeln!(out, "{}", t).unwrap();
        let (cmd, rest) = match t.split_once(' ') { Some((a, b)) => (a, b), None => (t, "") };
        let ans = match cmd {
            "hdr" => format!("hdr {}", rest.split_whitespace().next().unwrap_or("")),
            "cl" => answer_compile(rest),
            "ser" => answer_serialize(rest),
            "which" => which_a64(rest),
            "enc" => { let ws: Vec<&str> = t.split_whitespace().collect(); enc(&ws) }
            "feat" => feat(rest),
            "encsweep" => encsweep(rest.trim()),
            _ => "bad-op".into(),
        };
        writeln!(out, "= {}", ans).unwrap();
    }
    out.flush().unwrap();
}

fn dump(arch: &str) {
    let stdout = io::stdout();
    let mut out = io::BufWriter::new(stdout.lock());
    match arch {
        "aarch64" => {
            use crate::arch::aarch64::aarch64data as d;
            let mut names: Vec<&&str> = d::mnemnonics().collect();
            names.sort();
            for n in names {
                for (i, op) in d::get_mnemonic_data(n).unwrap().iter().enumerate() {
                    writeln!(out, "{{\"m\":{},\"i\":{},\"base\":{},\"matchers\":{},\"commands\":{}}}", json_str(n), i, op.base,
                        json_str(&format!("{:?}", op.matchers)), json_str(&format!("{:?}", op.commands))).unwrap();
                }
            }
            let mut conds: Vec<(&&str, &u8)> = d::COND_MAP.iter().collect();
            conds.sort();
            writeln!(out, "{{\"cond_map\":{}}}", json_str(&format!("{:?}", conds))).unwrap();
            let mut sp: Vec<String> = d::SPECIAL_IDENT_MAP.iter().map(|(k, v)| { let mut e: Vec<_> = v.iter().collect(); e.sort(); format!("{:?}", (k, e)) }).collect();
            sp.sort();
            writeln!(out, "{{\"special_ident_map\":{}}}", json_str(&format!("{:?}", sp))).unwrap();
        }
        "riscv" => {
            use crate::arch::riscv::riscvdata as d;
            let mut names: Vec<&&str> = d::mnemonics().collect();
            names.sort();
            for n in names {
                for (i, op) in d::get_mnemonic_data(n).unwrap().iter().enumerate() {
                    writeln!(out, "{{\"m\":{},\"i\":{},\"op\":{}}}", json_str(n), i, json_str(&format!("{:?}", op))).unwrap();
                }
            }
        }
        "x64" => {
            use crate::arch::x64::x64data as d;
            let mut names: Vec<&&str> = d::mnemnonics().collect();
            names.sort();
            for n in names {
                for (i, op) in d::get_mnemnonic_data(n).unwrap().iter().enumerate() {
                    writeln!(out, "{{\"m\":{},\"i\":{},\"args\":{},\"ops\":{},\"reg\":{},\"flags\":{},\"features\":{}}}", json_str(n), i,
                        json_str(&String::from_utf8_lossy(op.args)), json_str(&hexs(op.ops)), op.reg,
                        op.flags.bits(), op.features.bits()).unwrap();
                }
            }
        }
        _ => { eprintln!("unknown arch"); std::process::exit(2); }
    }
    out.flush().unwrap();
}

pub fn main() {
    let args: Vec<String> = std::env::args().collect();
    std::panic::set_hook(Box::new(|_| {}));
    match args.get(1).map(|s| s.as_str()) {
        Some("exec") | None => exec(),
        Some("dump") => dump(args.get(2).map(|s| s.as_str()).unwrap_or("")),
        Some("extract") => {
            let s = match args.get(2).map(|s| s.as_str()) {
                Some("aarch64") => crate::arch::aarch64::extract_opmap(),
                Some("riscv") => crate::arch::riscv::extract_opmap(),
                _ => { eprintln!("unknown arch"); std::process::exit(2); }
            };
            println!("{}", s);
        }
        Some(x) => { eprintln!("unknown mode {x}"); std::process::exit(2); }
    }
}
