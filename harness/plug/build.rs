//! Copies /repo/plugin/src into OUT_DIR with visibility widened (`mod` → `pub mod`, `pub(super|crate)` → `pub`, private `fn`/`struct`/
//! `enum`/`static`/`const` items at the start of a line → `pub`) and the proc-macro attributes dropped, so that the whole plugin can be
//! included as an ordinary module tree: parse → match → compile → Vec<Stmt>, `serialize`, the opmaps, `parse_features`, …
use std::{env, fs, path::{Path, PathBuf}};

fn widen(text: &str, is_root: bool) -> String {
    let mut out = String::new();
    for line in text.lines() {
        let t = line.trim_start();
        let indent = &line[..line.len() - t.len()];
        if is_root && (t.starts_with("//!") || t.starts_with("#![") || t == "#[proc_macro]" || t == "#[proc_macro_error]" || t.starts_with("extern crate proc_macro")) {
            continue;
        }
        let mut l = t.to_string();
        for (a, b) in [("pub(super) ", "pub "), ("pub(crate) ", "pub "), ("pub(in super) ", "pub ")] {
            if l.starts_with(a) { l = format!("{}{}", b, &l[a.len()..]); }
        }
        let inside_impl_or_trait = !indent.is_empty();
        let starts = ["mod ", "fn ", "struct ", "enum ", "static ", "const ", "type ", "trait ", "use "];
        if !inside_impl_or_trait || t.starts_with("mod ") {
            for s in starts {
                if l.starts_with(s) && s != "use " {
                    l = format!("pub {}", l);
                    break;
                }
            }
        }
        // lazy_static private statics
        if l.starts_with("static ref ") { l = format!("pub {}", l); }
        out.push_str(indent);
        out.push_str(&l);
        out.push('\n');
    }
    out
}

fn copy_tree(src: &Path, dst: &Path, root: &Path) {
    fs::create_dir_all(dst).unwrap();
    for e in fs::read_dir(src).unwrap() {
        let e = e.unwrap();
        let p = e.path();
        let d = dst.join(e.file_name());
        if p.is_dir() {
            copy_tree(&p, &d, root);
        } else if p.extension().map(|x| x == "rs").unwrap_or(false) {
            let text = fs::read_to_string(&p).unwrap();
            let name = p.file_name().unwrap().to_str().unwrap();
            // table files that are `include!`d are data, not items
            let is_data = name == "opmap.rs" || name == "gen_opmap.rs";
            let is_root = p == root.join("lib.rs");
            let mut w = if is_data { text } else { widen(&text, is_root) };
            if is_root {
                // the root is `include!`d, so its `mod x;` items need explicit paths into the copied tree
                let mut fixed = String::new();
                let mut skipping = false;
                for line in w.lines() {
                    // the proc-macro entry points take proc_macro::TokenStream, which only exists inside a macro expansion: drop them
                    if line.starts_with("pub fn dynasm") { skipping = true; }
                    if skipping {
                        if line == "}" { skipping = false; }
                        continue;
                    }
                    if let Some(rest) = line.trim().strip_prefix("pub mod ") {
                        if let Some(name) = rest.strip_suffix(';') {
                            let p1 = dst.join(format!("{}.rs", name));
                            let p2 = dst.join(name).join("mod.rs");
                            let target = if src.join(format!("{}.rs", name)).exists() { p1 } else { p2 };
                            fixed.push_str(&format!("#[path = \"{}\"] pub mod {};\n", target.display(), name));
                            continue;
                        }
                    }
                    fixed.push_str(line);
                    fixed.push('\n');
                }
                w = fixed;
            }
            fs::write(&d, w).unwrap();
        }
    }
}

fn main() {
    let repo = env::var("DYNASM_REPO").unwrap_or("/repo".into());
    let src = PathBuf::from(format!("{}/plugin/src", repo));
    println!("cargo:rerun-if-changed={}", src.display());
    println!("cargo:rerun-if-env-changed=DYNASM_REPO");
    let dst = PathBuf::from(env::var("OUT_DIR").unwrap()).join("plugin_src");
    let _ = fs::remove_dir_all(&dst);
    copy_tree(&src, &dst, &src);

}
