// shared by the generated binaries (included textually): line protocol `<case> <v1> <v2> …` → `= ok x<HEX>` | `= panic <message>`
use std::io::{BufRead, Write};
use std::panic::{catch_unwind, AssertUnwindSafe};

pub fn hex(b: &[u8]) -> String {
    let mut s = String::with_capacity(b.len() * 2 + 1);
    s.push('x');
    for x in b { s.push_str(&format!("{:02x}", x)); }
    s
}

pub fn serve(cases: &[fn(&[i128]) -> Vec<u8>]) {
    std::panic::set_hook(Box::new(|_| {}));
    let stdin = std::io::stdin();
    let out = std::io::stdout();
    let mut out = std::io::BufWriter::new(out.lock());
    for line in stdin.lock().lines() {
        let line = line.unwrap();
        let ws: Vec<&str> = line.split_whitespace().collect();
        if ws.is_empty() { continue; }
        let _ = writeln!(out, "{}", line);
        let idx: usize = match ws[0].parse() { Ok(i) => i, Err(_) => { let _ = writeln!(out, "= bad-op"); continue; } };
        let vals: Option<Vec<i128>> = ws[1..].iter().map(|s| s.parse::<i128>().ok()).collect();
        let (Some(vals), Some(f)) = (vals, cases.get(idx)) else { let _ = writeln!(out, "= bad-op"); continue; };
        match catch_unwind(AssertUnwindSafe(|| f(&vals))) {
            Ok(b) => { let _ = writeln!(out, "= ok {}", hex(&b)); }
            Err(e) => {
                let m = e.downcast_ref::<String>().cloned().or_else(|| e.downcast_ref::<&str>().map(|s| s.to_string())).unwrap_or_default();
                let _ = writeln!(out, "= panic {}", m.replace('\n', " "));
            }
        }
    }
}
