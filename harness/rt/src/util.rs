//! hex helpers, the sweep digest and the shared PRNG (same definitions as `lean/DynasmVerif/Model/Util.lean`)

pub fn hex(bs: &[u8]) -> String {
    let mut s = String::with_capacity(1 + bs.len() * 2);
    s.push('x');
    for b in bs { s.push_str(&format!("{:02x}", b)); }
    s
}

pub fn unhex(s: &str) -> Option<Vec<u8>> {
    let s = s.strip_prefix('x')?;
    if s.len() % 2 != 0 { return None; }
    (0..s.len()).step_by(2).map(|i| u8::from_str_radix(&s[i..i + 2], 16).ok()).collect()
}

#[inline]
pub fn mix(h: u64, x: u64) -> u64 { (h ^ x).wrapping_mul(0x100000001B3) }
pub const DIGEST_INIT: u64 = 0xCBF29CE484222325;

pub struct SplitMix(pub u64);
impl SplitMix {
    pub fn next(&mut self) -> u64 {
        self.0 = self.0.wrapping_add(0x9E3779B97F4A7C15);
        let mut z = self.0;
        z = (z ^ (z >> 30)).wrapping_mul(0xBF58476D1CE4E5B9);
        z = (z ^ (z >> 27)).wrapping_mul(0x94D049BB133111EB);
        z ^ (z >> 31)
    }
}

pub fn panic_msg(p: Box<dyn std::any::Any + Send>) -> String {
    if let Some(s) = p.downcast_ref::<String>() { s.clone() }
    else if let Some(s) = p.downcast_ref::<&str>() { s.to_string() }
    else { "?".into() }
}
