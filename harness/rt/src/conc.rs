//! `rt conc <park_index> <probe|hold|none>`: one steered schedule of a fixed assembler program against a reader thread (C08, C09).
//!
//! The assembler thread runs: commit (in place), commit (grows the mapping), alter, commit (in place), finalize.
//! The `dynasm_verif` hook callback numbers every observation point it passes; at each it samples /proc/self/maps (any mapping
//! writable+executable? protection of the mapping that holds the committed code?) and, at point number `park_index`, parks the
//! assembler thread. While it is parked the controller lets a reader thread try `Executor::lock()`:
//!   probe: lock, snapshot (address, length, contents → which committed version, protection), unlock — or "blocked" after a timeout;
//!   hold:  lock and HOLD the guard, let the assembler run on, note how far it gets, check the guarded buffer did not change, unlock.
//! Every event is printed as one line; lib/c08.py / c09.py replay the lines on the Lean model (driver stream `conc`).

use dynasmrt::{Assembler, DynasmApi, DynasmLabelApi, x64::X64Relocation, Executor, AssemblyOffset};
use dynasmrt::relocations::Relocation;
use std::sync::{Arc, Mutex, Condvar, mpsc};
use std::sync::atomic::{AtomicUsize, AtomicBool, Ordering};
use std::time::Duration;

fn wait() -> Duration {
    Duration::from_millis(std::env::var("DYNASM_VERIF_WAIT_MS").ok().and_then(|s| s.parse().ok()).unwrap_or(60))
}

fn maps() -> Vec<(usize, usize, String)> {
    let txt = std::fs::read_to_string("/proc/self/maps").unwrap_or_default();
    txt.lines().filter_map(|l| {
        let mut it = l.split_whitespace();
        let range = it.next()?;
        let perms = it.next()?.to_string();
        let (a, b) = range.split_once('-')?;
        Some((usize::from_str_radix(a, 16).ok()?, usize::from_str_radix(b, 16).ok()?, perms))
    }).collect()
}

fn prot_of(addr: usize) -> String {
    if addr == 0 { return "none".into(); }
    for (a, b, p) in maps() {
        if a <= addr && addr < b {
            return match &p[..3] { "r-x" => "rx".into(), "rw-" => "rw".into(), other => other.to_string() };
        }
    }
    "unmapped".into()
}

fn any_wx() -> bool {
    maps().iter().any(|(_, _, p)| p.as_bytes()[1] == b'w' && p.as_bytes()[2] == b'x')
}

/// the committed contents after each completed operation (version 0 = nothing committed yet)
fn versions() -> Vec<Vec<u8>> {
    let mut v = vec![Vec::new()];
    let mut cur: Vec<u8> = (0..16u8).map(|i| 0xA0 | i).collect();
    v.push(cur.clone());
    cur.extend((0..5000usize).map(|i| (i % 251) as u8));
    v.push(cur.clone());
    for (i, b) in [0x11u8, 0x22, 0x33, 0x44].iter().enumerate() { cur[4 + i] = *b; }
    v.push(cur.clone());
    // the failing alter session: its bytes are in the buffer, its reference has no definition
    for (i, b) in [0x55u8, 0x66, 0x77, 0x88].iter().enumerate() { cur[8 + i] = *b; }
    v.push(cur.clone());
    cur.extend([0xC0u8, 0xC1, 0xC2, 0xC3, 0xC4, 0xC5, 0xC6, 0xC7]);
    v.push(cur.clone());
    // a second growing commit, AFTER the alterations: the new mapping must carry the altered bytes
    cur.extend((0..4000usize).map(|i| (i % 239) as u8));
    v.push(cur.clone());
    v
}

fn version_of(data: &[u8], vs: &[Vec<u8>]) -> String {
    match vs.iter().position(|v| v.as_slice() == data) { Some(i) => i.to_string(), None => "?".into() }
}

struct Park {
    state: Mutex<(bool, bool)>,     // (parked, resume)
    cv: Condvar,
}

pub fn run(park_index: usize, mode: &str) {
    let vs = Arc::new(versions());
    let out = Arc::new(Mutex::new(Vec::<String>::new()));
    let emit = { let out = out.clone(); move |s: String| out.lock().unwrap().push(s) };
    let counter = Arc::new(AtomicUsize::new(0));
    let park = Arc::new(Park { state: Mutex::new((false, false)), cv: Condvar::new() });
    let known_addr = Arc::new(AtomicUsize::new(0));
    let finished = Arc::new(AtomicBool::new(false));
    let want_finalize = Arc::new(AtomicBool::new(false));
    let reader_dropped = Arc::new(AtomicBool::new(false));

    let abort_mode = mode == "abort";
    let aborted = Arc::new(AtomicBool::new(false));
    if abort_mode {
        std::panic::set_hook(Box::new(|_| {}));
    }
    let mut ops: Assembler<X64Relocation> = Assembler::new().unwrap();
    let reader: Executor = ops.reader();
    // hook
    {
        let (out, counter, park, known_addr) = (out.clone(), counter.clone(), park.clone(), known_addr.clone());
        let aborted = aborted.clone();
        dynasmrt::verif_hooks::set(Some(Box::new(move |name: &'static str| {
            let k = counter.fetch_add(1, Ordering::SeqCst);
            let line = format!("hook {} wx={} cur={}", name, any_wx() as u8, prot_of(known_addr.load(Ordering::SeqCst)));
            out.lock().unwrap().push(line);
            if k == park_index && abort_mode {
                // the assembling thread dies here: like a failing `expect` on an mprotect call or a panic in the user's alter closure
                out.lock().unwrap().push("abort".into());
                aborted.store(true, Ordering::SeqCst);
                panic!("dynasm_verif: abort at {}", name);
            }
            if k == park_index {
                let mut st = park.state.lock().unwrap();
                st.0 = true;
                park.cv.notify_all();
                while !st.1 { st = park.cv.wait(st).unwrap(); }
            }
        })));
    }
    // assembler thread
    let (tx, rx) = mpsc::channel::<()>();
    let asm_thread = {
        let (out, vs, known_addr, finished) = (out.clone(), vs.clone(), known_addr.clone(), finished.clone());
        let (want_finalize, reader_dropped) = (want_finalize.clone(), reader_dropped.clone());
        let reader2 = reader.clone();
        std::thread::spawn(move || {
            let boundary = |label: &str, reader: &Executor| {
                // between API calls: what a reader sees now
                let g = reader.lock();
                let addr = if g.len() > 0 { g.ptr(AssemblyOffset(0)) as usize } else { 0 };
                known_addr.store(addr, Ordering::SeqCst);
                out.lock().unwrap().push(format!("returned {} ver={} prot={} wx={}", label, version_of(&g, &vs), prot_of(addr), any_wx() as u8));
                drop(g);
                // an observation point BETWEEN two API calls (nothing is locked here): a reader parked on can hold its guard while the next operation starts
                dynasmrt::verif_hooks::point("api.boundary");
            };
            for i in 0..16u8 { ops.push(0xA0 | i); }
            ops.commit().unwrap();
            boundary("commit", &reader2);
            for i in 0..5000usize { ops.push((i % 251) as u8); }
            ops.commit().unwrap();
            boundary("commit", &reader2);
            ops.alter(|m| { m.goto(AssemblyOffset(4)); for b in [0x11u8, 0x22, 0x33, 0x44] { m.push(b); } }).unwrap();
            boundary("alter", &reader2);
            // an alter session that FAILS (a reference without definition): same lock / protection steps, an error result
            let failed = ops.alter(|m| {
                m.goto(AssemblyOffset(8));
                for b in [0x55u8, 0x66, 0x77, 0x88] { m.push(b); }
                m.global_relocation("verif_undefined", 0, 4, 0, X64Relocation::from_encoding((4,)));
            });
            if failed.is_ok() { out.lock().unwrap().push("alter-did-not-fail".into()); }
            boundary("alter-failed", &reader2);
            for b in [0xC0u8, 0xC1, 0xC2, 0xC3, 0xC4, 0xC5, 0xC6, 0xC7] { ops.push(b); }
            ops.commit().unwrap();
            boundary("commit", &reader2);
            for i in 0..4000usize { ops.push((i % 239) as u8); }
            ops.commit().unwrap();
            boundary("commit", &reader2);
            drop(reader2);
            // finalize succeeds only when no executor is left: first attempt while the controller still holds one
            let mut ops = ops;
            match ops.finalize() {
                Ok(_) => { out.lock().unwrap().push("finalized early".into()); finished.store(true, Ordering::SeqCst); let _ = tx.send(()); return; }
                Err(o) => { ops = o; out.lock().unwrap().push("finalize refused".into()); }
            }
            want_finalize.store(true, Ordering::SeqCst);
            let mut waited = 0;
            while !reader_dropped.load(Ordering::SeqCst) && waited < 2000 { std::thread::sleep(Duration::from_millis(1)); waited += 1; }
            match ops.finalize() {
                Ok(buf) => {
                    let addr = buf.ptr(AssemblyOffset(0)) as usize;
                    out.lock().unwrap().push(format!("finalized ver={} prot={} wx={}", version_of(&buf, &vs), prot_of(addr), any_wx() as u8));
                }
                Err(_) => { out.lock().unwrap().push("finalize refused-again".into()); }
            }
            finished.store(true, Ordering::SeqCst);
            let _ = tx.send(());
        })
    };
    // controller: wait until parked (or finished)
    let parked = {
        let mut st = park.state.lock().unwrap();
        loop {
            if st.0 { break true; }
            if finished.load(Ordering::SeqCst) || want_finalize.load(Ordering::SeqCst) || aborted.load(Ordering::SeqCst) { break false; }
            let (g, _) = park.cv.wait_timeout(st, Duration::from_millis(5)).unwrap();
            st = g;
        }
    };
    if aborted.load(Ordering::SeqCst) {
        // the assembling thread unwound (its Assembler is dropped with it); what does an executor that outlives it get?
        let _ = asm_thread.join();
        let r2 = reader.clone();
        let (vs2, out2) = (vs.clone(), out.clone());
        let res = std::panic::catch_unwind(std::panic::AssertUnwindSafe(move || {
            let g = r2.lock();
            let addr = if g.len() > 0 { g.ptr(AssemblyOffset(0)) as usize } else { 0 };
            out2.lock().unwrap().push(format!("rlock granted ver={} prot={} len={}", version_of(&g, &vs2), prot_of(addr), g.len()));
            out2.lock().unwrap().push("runlock".into());
        }));
        if res.is_err() { emit("rlock poisoned".into()); }
        let lines = out.lock().unwrap().clone();
        for l in lines { println!("{}", l); }
        println!("end");
        return;
    }
    let resume = |park: &Arc<Park>| { let mut st = park.state.lock().unwrap(); st.1 = true; park.cv.notify_all(); };
    if parked && mode != "none" {
        // reader thread; it writes its own event lines so that their order is the order of the events
        // shared: (what the reader saw when it got the guard, has the controller already declared it blocked)
        let acquired = Arc::new((Mutex::new((None::<String>, false)), Condvar::new()));
        let release = Arc::new((Mutex::new(false), Condvar::new()));
        let r = {
            let (acquired, release, vs, reader, out) = (acquired.clone(), release.clone(), vs.clone(), reader.clone(), out.clone());
            let hold = mode == "hold";
            std::thread::spawn(move || {
                let g = reader.lock();
                let addr = if g.len() > 0 { g.ptr(AssemblyOffset(0)) as usize } else { 0 };
                let snap = (addr, g.len(), g.to_vec(), prot_of(addr));
                let late = {
                    let mut a = acquired.0.lock().unwrap();
                    let desc = format!("ver={} prot={} len={}", version_of(&g, &vs), snap.3, g.len());
                    if a.1 { out.lock().unwrap().push(format!("rlock granted-later {}", desc)); }
                    else { out.lock().unwrap().push(format!("rlock granted {}", desc)); }
                    a.0 = Some(desc);
                    acquired.1.notify_all();
                    a.1
                };
                if hold && !late {
                    let mut rl = release.0.lock().unwrap();
                    while !*rl { rl = release.1.wait(rl).unwrap(); }
                    let addr2 = if g.len() > 0 { g.ptr(AssemblyOffset(0)) as usize } else { 0 };
                    let same = addr2 == snap.0 && g.len() == snap.1 && g.to_vec() == snap.2 && prot_of(addr2) == snap.3;
                    out.lock().unwrap().push(format!("held stable={} prot={}", same as u8, prot_of(addr2)));
                }
                out.lock().unwrap().push("runlock".into());
                drop(g);
            })
        };
        // did the reader get the lock while the assembler is parked?
        let got = {
            let mut a = acquired.0.lock().unwrap();
            if a.0.is_none() { let (g, _) = acquired.1.wait_timeout(a, wait()).unwrap(); a = g; }
            if a.0.is_none() { a.1 = true; out.lock().unwrap().push("rlock blocked".into()); }
            a.0.clone()
        };
        if mode == "hold" && got.is_some() {
            // let the assembler run while the guard is held; see how far it gets
            let before = counter.load(Ordering::SeqCst);
            resume(&park);
            std::thread::sleep(wait());
            let progressed = counter.load(Ordering::SeqCst) - before;
            emit(format!("while-held hooks={} finished={}", progressed, finished.load(Ordering::SeqCst) as u8));
            { let mut rl = release.0.lock().unwrap(); *rl = true; release.1.notify_all(); }
            let _ = r.join();
        } else {
            resume(&park);
            let _ = r.join();
        }
    } else if parked {
        resume(&park);
    }
    // let the assembler reach finalize; drop our executor so that finalize can succeed
    let mut waited = 0;
    while !want_finalize.load(Ordering::SeqCst) && !finished.load(Ordering::SeqCst) && waited < 5000 { std::thread::sleep(Duration::from_millis(1)); waited += 1; }
    drop(reader);
    reader_dropped.store(true, Ordering::SeqCst);
    // a park point that is only reached now (inside the final finalize) has no reader left to try: just resume
    let mut done = false;
    for _ in 0..2000 {
        if rx.recv_timeout(Duration::from_millis(5)).is_ok() { done = true; break; }
        // abort mode, point reached only inside the final finalize: the thread is gone and no executor is left to look
        if aborted.load(Ordering::SeqCst) { done = true; break; }
        let parked_now = { let st = park.state.lock().unwrap(); st.0 && !st.1 };
        if parked_now { resume(&park); }
    }
    if done { let _ = asm_thread.join(); }
    dynasmrt::verif_hooks::set(None);
    let lines = out.lock().unwrap().clone();
    for l in lines { println!("{}", l); }
    println!("{}", if done { "end" } else { "deadlock" });
}
