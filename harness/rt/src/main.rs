//! Correspondence harness for the runtime crate: executes line-protocol requests (DESIGN.md appendix A)
//! against the real `dynasmrt` code and prints each request followed by its `= answer` line.
//!
//!   rt exec            read requests on stdin (first line `hdr <stream> ...`)
#![allow(dead_code)]

mod util;
mod reloc;
mod asm;
mod conc;

use std::io::{self, BufRead, Write};

fn main() {
    let args: Vec<String> = std::env::args().collect();
    let mode = args.get(1).map(|s| s.as_str()).unwrap_or("exec");
    // panics are part of the observed behaviour; keep stderr quiet
    std::panic::set_hook(Box::new(|_| {}));
    match mode {
        "exec" => exec(),
        "conc" => {
            let k: usize = args.get(2).and_then(|s| s.parse().ok()).unwrap_or(usize::MAX);
            conc::run(k, args.get(3).map(|s| s.as_str()).unwrap_or("none"));
        }
        other => {
            eprintln!("unknown mode {other}");
            std::process::exit(2);
        }
    }
}

fn exec() {
    let stdin = io::stdin();
    let stdout = io::stdout();
    let mut out = io::BufWriter::new(stdout.lock());
    let mut stream = String::new();
    let mut asm_state = asm::AsmState::new();
    for line in stdin.lock().lines() {
        let line = line.unwrap();
        let ws: Vec<&str> = line.split_whitespace().collect();
        if ws.is_empty() { continue; }
        if ws[0].starts_with('#') || ws[0] == "=" { continue; }
        if ws[0] == "hdr" {
            writeln!(out, "{}", line.trim()).unwrap();
            stream = ws.get(1).unwrap_or(&"").to_string();
            writeln!(out, "= hdr {}", stream).unwrap();
            continue;
        }
        if stream == "asm" {
            // block-structured requests are answered once the block is complete
            asm_state.feed(&line, &mut out);
            continue;
        }
        writeln!(out, "{}", line.trim()).unwrap();
        let ans = match stream.as_str() {
            "reloc" => reloc::handle(&ws),
            _ => "bad-stream".to_string(),
        };
        writeln!(out, "= {}", ans).unwrap();
    }
    out.flush().unwrap();
}
