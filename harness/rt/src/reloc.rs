//! `reloc` stream (C05): `Relocation::write_value` / `read_value` on caller supplied slices.

use dynasmrt::relocations::{Relocation, RelocationSize};
use dynasmrt::{aarch64::Aarch64Relocation, riscv::RiscvRelocation, x64::X64Relocation, x86::X86Relocation};
use crate::util::*;
use std::panic::{catch_unwind, AssertUnwindSafe};

#[derive(Clone, Debug)]
pub enum AnyReloc {
    Size(RelocationSize),
    X64(X64Relocation),
    X86(X86Relocation),
    A64(Aarch64Relocation),
    Rv(RiscvRelocation),
}

macro_rules! each {
    ($s:expr, $r:ident => $e:expr) => {
        match $s {
            AnyReloc::Size($r) => $e,
            AnyReloc::X64($r) => $e,
            AnyReloc::X86($r) => $e,
            AnyReloc::A64($r) => $e,
            AnyReloc::Rv($r) => $e,
        }
    };
}

impl AnyReloc {
    pub fn size(&self) -> usize { each!(self, r => r.size()) }
    pub fn write(&self, buf: &mut [u8], v: isize) -> bool { each!(self, r => r.write_value(buf, v).is_ok()) }
    pub fn read(&self, buf: &[u8]) -> isize { each!(self, r => r.read_value(buf)) }
}

/// encoding byte used by `from_encoding` for a format name of one architecture family
pub fn a64_code(name: &str) -> Option<u8> {
    Some(match name { "B" => 0, "BCOND" => 1, "ADR" => 2, "ADRP" => 3, "TBZ" => 4,
        "P1" => 5, "P2" => 6, "P4" => 8, "P8" => 12, _ => return None })
}
pub fn rv_code(name: &str) -> Option<u8> {
    Some(match name { "B" => 0, "J" => 1, "BC" => 2, "JC" => 3, "HI20" => 4, "LO12" => 5, "LO12S" => 6,
        "SPLIT32" => 7, "SPLIT32S" => 8, "P1" => 9, "P2" => 10, "P4" => 12, "P8" => 16, _ => return None })
}

pub fn parse_fmt(name: &str) -> Option<AnyReloc> {
    let (fam, rest) = name.split_once('.')?;
    match fam {
        "p" => Some(AnyReloc::Size(RelocationSize::from_encoding(size_ok(rest)?))),
        "x64" => Some(AnyReloc::X64(X64Relocation::from_encoding((size_ok(rest)?,)))),
        // x86.<size>[.<kind>]
        "x86" => {
            let (sz, kind) = match rest.split_once('.') { Some((a, b)) => (a, b.parse::<u8>().ok()?), None => (rest, 0) };
            if kind > 2 { return None; }
            Some(AnyReloc::X86(X86Relocation::from_encoding((size_ok(sz)?, kind))))
        }
        "a64" => Some(AnyReloc::A64(Aarch64Relocation::from_encoding((a64_code(rest)?,)))),
        "rv" => Some(AnyReloc::Rv(RiscvRelocation::from_encoding((rv_code(rest)?,)))),
        _ => None,
    }
}

fn size_ok(s: &str) -> Option<u8> {
    match s { "1" => Some(1), "2" => Some(2), "4" => Some(4), "8" => Some(8), _ => None }
}

fn word(bs: &[u8]) -> u64 {
    let mut w = 0u64;
    for (i, b) in bs.iter().enumerate() { w |= (*b as u64) << (8 * i); }
    w
}

pub fn handle(ws: &[&str]) -> String {
    let r = catch_unwind(AssertUnwindSafe(|| handle_inner(ws)));
    match r { Ok(s) => s, Err(_) => "panic".into() }
}

fn handle_inner(ws: &[&str]) -> String {
    match ws {
        ["w", fmt, old, v] => {
            let (Some(f), Some(mut buf), Ok(v)) = (parse_fmt(fmt), unhex(old), v.parse::<i64>()) else { return "bad-op".into() };
            if buf.len() != f.size() { return "bad-op".into(); }
            if f.write(&mut buf, v as isize) { format!("ok {}", hex(&buf)) } else { "impossible".into() }
        }
        ["r", fmt, b] => {
            let (Some(f), Some(buf)) = (parse_fmt(fmt), unhex(b)) else { return "bad-op".into() };
            if buf.len() != f.size() { return "bad-op".into(); }
            format!("{}", f.read(&buf))
        }
        ["sw", fmt, old, start, count, step] => {
            let (Some(f), Some(old), Ok(start), Ok(count), Ok(step)) =
                (parse_fmt(fmt), unhex(old), start.parse::<i64>(), count.parse::<u64>(), step.parse::<u64>()) else { return "bad-op".into() };
            if old.len() != f.size() { return "bad-op".into(); }
            let mut h = DIGEST_INIT;
            let mut oks = 0u64;
            let mut buf = old.clone();
            for i in 0..count {
                let v = start.wrapping_add((i * step) as i64);
                buf.copy_from_slice(&old);
                if f.write(&mut buf, v as isize) {
                    oks += 1;
                    h = mix(h, word(&buf)); h = mix(h, 0);
                    h = mix(h, f.read(&buf) as i64 as u64);
                } else {
                    h = mix(h, u64::MAX); h = mix(h, 1);
                }
            }
            format!("{:016x} ok={}", h, oks)
        }
        _ => "bad-op".into(),
    }
}
