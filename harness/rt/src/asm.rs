//! `asm` stream: placeholder, filled in below
pub struct AsmState;
impl AsmState {
    pub fn new() -> Self { AsmState }
    pub fn handle(&mut self, _ws: &[&str]) -> String { "bad-op".into() }
}
