//! `asm` stream: drives the real assemblers (`SimpleAssembler`, `VecAssembler<R>`, `Assembler<R>`, `Modifier`,
//! `UncommittedModifier`, `LitPool`) with the operations of DESIGN.md appendix A.

use dynasmrt::components::LitPool;
use dynasmrt::relocations::{Relocation, RelocationSize};
use dynasmrt::{aarch64::Aarch64Relocation, riscv::RiscvRelocation, x64::X64Relocation, x86::X86Relocation};
use dynasmrt::{Assembler, AssemblyOffset, DynamicLabel, DynasmApi, DynasmError, DynasmLabelApi, LabelKind, SimpleAssembler,
    TargetKind, UncommittedModifier, VecAssembler};
use std::io::Write;
use std::panic::{catch_unwind, AssertUnwindSafe};

use crate::reloc::{a64_code, rv_code};
use crate::util::*;

const NAMES: [&str; 32] = ["L0", "L1", "L2", "L3", "L4", "L5", "L6", "L7", "L8", "L9", "L10", "L11", "L12", "L13", "L14", "L15",
    "L16", "L17", "L18", "L19", "L20", "L21", "L22", "L23", "L24", "L25", "L26", "L27", "L28", "L29", "L30", "L31"];

fn name(ix: &str) -> Option<&'static str> { NAMES.get(ix.parse::<usize>().ok()?).copied() }
fn name_ix(n: &str) -> usize { NAMES.iter().position(|x| *x == n).unwrap_or(999) }

pub trait MkReloc: Relocation + Sized {
    fn mk(fmt: &str) -> Option<Self>;
}
fn size_code(s: &str) -> Option<u8> { match s { "1" => Some(1), "2" => Some(2), "4" => Some(4), "8" => Some(8), _ => None } }
impl MkReloc for X64Relocation {
    fn mk(fmt: &str) -> Option<Self> { Some(Self::from_encoding((size_code(fmt.strip_prefix("x64.")?)?,))) }
}
impl MkReloc for X86Relocation {
    fn mk(fmt: &str) -> Option<Self> {
        let rest = fmt.strip_prefix("x86.")?;
        let (sz, kind) = match rest.split_once('.') { Some((a, b)) => (a, b.parse::<u8>().ok()?), None => (rest, 0) };
        if kind > 2 { return None; }
        Some(Self::from_encoding((size_code(sz)?, kind)))
    }
}
impl MkReloc for Aarch64Relocation {
    fn mk(fmt: &str) -> Option<Self> { Some(Self::from_encoding((a64_code(fmt.strip_prefix("a64.")?)?,))) }
}
impl MkReloc for RiscvRelocation {
    fn mk(fmt: &str) -> Option<Self> { Some(Self::from_encoding((rv_code(fmt.strip_prefix("rv.")?)?,))) }
}

fn label_kind(l: &LabelKind) -> String {
    match l {
        LabelKind::Local(n) => format!("local {}", name_ix(n)),
        LabelKind::Global(n) => format!("global {}", name_ix(n)),
        LabelKind::Dynamic(d) => format!("dyn {}", d.get_id()),
    }
}
fn target_kind(t: &TargetKind) -> String {
    match t {
        TargetKind::Local(n) => format!("local {}", name_ix(n)),
        TargetKind::Global(n) => format!("global {}", name_ix(n)),
        TargetKind::Dynamic(d) => format!("dyn {}", d.get_id()),
        TargetKind::Extern(a) => format!("extern {}", a),
        TargetKind::Managed => "managed".to_string(),
    }
}
pub fn show_err(e: &DynasmError) -> String {
    match e {
        DynasmError::CheckFailed => "CheckFailed".to_string(),
        DynasmError::DuplicateLabel(l) => format!("Duplicate({})", label_kind(l)),
        DynasmError::UnknownLabel(l) => format!("Unknown({})", label_kind(l)),
        DynasmError::ImpossibleRelocation(t) => format!("Impossible({})", target_kind(t)),
    }
}

/// table of `DynamicLabel`s with every id 0..64, minted from a scratch assembler (the id is a plain index, so a label
/// minted elsewhere is how a caller ends up defining a label "that was never allocated")
fn dyn_table() -> Vec<DynamicLabel> {
    let mut scratch: VecAssembler<X64Relocation> = VecAssembler::new(0);
    (0..64).map(|_| scratch.new_dynamic_label()).collect()
}

/// plain emission requests, valid on every `DynasmApi`
fn emit_op<A: DynasmApi>(a: &mut A, ws: &[&str]) -> Option<String> {
    Some(match ws {
        ["e", h] => { for b in unhex(h)? { a.push(b); } "ok".into() }
        ["ex", h] => { let v = unhex(h)?; a.extend(v.iter()); "ok".into() }
        ["ev", h] => { let v = unhex(h)?; a.extend(v.into_iter()); "ok".into() }
        ["p16", v] => { a.push_u16(v.parse().ok()?); "ok".into() }
        ["p32", v] => { a.push_u32(v.parse().ok()?); "ok".into() }
        ["p64", v] => { a.push_u64(v.parse().ok()?); "ok".into() }
        ["pi8", v] => { a.push_i8(v.parse().ok()?); "ok".into() }
        ["pi16", v] => { a.push_i16(v.parse().ok()?); "ok".into() }
        ["pi32", v] => { a.push_i32(v.parse().ok()?); "ok".into() }
        ["pi64", v] => { a.push_i64(v.parse().ok()?); "ok".into() }
        ["al", al, f] => { a.align(al.parse().ok()?, f.parse::<u64>().ok()? as u8); "ok".into() }
        ["off"] => format!("{}", a.offset().0),
        _ => return None,
    })
}

fn rsize(s: &str) -> Option<RelocationSize> {
    match s { "1" => Some(RelocationSize::Byte), "2" => Some(RelocationSize::Word), "4" => Some(RelocationSize::DWord), "8" => Some(RelocationSize::QWord), _ => None }
}

/// label requests + literal pools, valid on every `DynasmLabelApi`
fn label_op<A: DynasmLabelApi>(a: &mut A, pool: &mut Option<LitPool>, dyns: &[DynamicLabel], ws: &[&str]) -> Option<String>
where A::Relocation: MkReloc {
    if pool.is_some() {
        return Some(match ws {
            ["pv", sz, v] => {
                let p = pool.as_mut().unwrap();
                let v: u64 = v.parse().ok()?;
                let o = match *sz { "1" => p.push_u8(v as u8), "2" => p.push_u16(v as u16), "4" => p.push_u32(v as u32), "8" => p.push_u64(v), _ => return None };
                format!("{}", o)
            }
            ["pa", sz, f] => { pool.as_mut().unwrap().align(sz.parse().ok()?, f.parse::<u64>().ok()? as u8); "ok".into() }
            ["pl", k, n, sz] => {
                let p = pool.as_mut().unwrap();
                let size = rsize(sz)?;
                let o = match *k {
                    "d" => p.push_dynamic(*dyns.get(n.parse::<usize>().ok()?)?, size),
                    "g" => p.push_global(name(n)?, size),
                    "f" => p.push_forward(name(n)?, size),
                    "b" => p.push_backward(name(n)?, size),
                    _ => return None,
                };
                format!("{}", o)
            }
            ["}pool"] => { pool.take().unwrap().emit(a); "ok".into() }
            _ => return None,
        });
    }
    Some(match ws {
        ["pool{"] => { *pool = Some(LitPool::new()); "ok".into() }
        ["ll", n] => { a.local_label(name(n)?); "ok".into() }
        ["gl", n] => { a.global_label(name(n)?); "ok".into() }
        ["dl", id] => { a.dynamic_label(*dyns.get(id.parse::<usize>().ok()?)?); "ok".into() }
        ["rf", n, t, f, r, fmt] => { a.forward_relocation(name(n)?, t.parse().ok()?, f.parse().ok()?, r.parse().ok()?, A::Relocation::mk(fmt)?); "ok".into() }
        ["rb", n, t, f, r, fmt] => { a.backward_relocation(name(n)?, t.parse().ok()?, f.parse().ok()?, r.parse().ok()?, A::Relocation::mk(fmt)?); "ok".into() }
        ["rg", n, t, f, r, fmt] => { a.global_relocation(name(n)?, t.parse().ok()?, f.parse().ok()?, r.parse().ok()?, A::Relocation::mk(fmt)?); "ok".into() }
        ["rd", id, t, f, r, fmt] => { a.dynamic_relocation(*dyns.get(id.parse::<usize>().ok()?)?, t.parse().ok()?, f.parse().ok()?, r.parse().ok()?, A::Relocation::mk(fmt)?); "ok".into() }
        ["rx", tg, f, r, fmt] => { a.bare_relocation(tg.parse().ok()?, f.parse().ok()?, r.parse().ok()?, A::Relocation::mk(fmt)?); "ok".into() }
        _ => return emit_op(a, ws),
    })
}

fn unc_op(u: &mut UncommittedModifier, ws: &[&str]) -> Option<String> {
    Some(match ws {
        ["goto", n] => { u.goto(AssemblyOffset(n.parse().ok()?)); "ok".into() }
        ["chk", n] => match u.check(AssemblyOffset(n.parse().ok()?)) { Ok(()) => "ok".into(), Err(e) => format!("err {}", show_err(&e)) },
        ["chkx", n] => match u.check_exact(AssemblyOffset(n.parse().ok()?)) { Ok(()) => "ok".into(), Err(e) => format!("err {}", show_err(&e)) },
        _ => return emit_op(u, ws),
    })
}

/// run the lines of an `unc{ … }unc` block; returns the answers (one per inner line + the closing line)
fn run_unc(mut u: UncommittedModifier, lines: &[String]) -> Vec<String> {
    let mut answers: Vec<String> = Vec::new();
    let mut dead = false;
    for l in lines {
        if dead { answers.push("dead".into()); continue; }
        let ws: Vec<&str> = l.split_whitespace().collect();
        if ws == ["}unc"] { answers.push("ok".into()); continue; }
        match catch_unwind(AssertUnwindSafe(|| unc_op(&mut u, &ws))) {
            Ok(Some(s)) => answers.push(s),
            Ok(None) => answers.push("bad-op".into()),
            Err(_) => { answers.push("panic".into()); dead = true; }
        }
    }
    answers
}

trait Machine {
    /// single-line request at top level
    fn op(&mut self, ws: &[&str]) -> String;
    /// a block `alter{ … }alter` or `unc{ … }unc`: all lines including opener and closer; one answer per line
    fn block(&mut self, lines: &[String]) -> Vec<String>;
    fn is_dead(&self) -> bool;
}

struct SimpleM { a: Option<SimpleAssembler>, dead: bool }
impl Machine for SimpleM {
    fn op(&mut self, ws: &[&str]) -> String {
        let Some(a) = self.a.as_mut() else { return "dead".into() };
        match ws {
            ["buf"] => hex(&a.ops),
            ["fin"] => { let a = self.a.take().unwrap(); self.dead = true; format!("ok {}", hex(&a.finalize())) }
            _ => emit_op(a, ws).unwrap_or("bad-op".into()),
        }
    }
    fn block(&mut self, lines: &[String]) -> Vec<String> {
        let Some(a) = self.a.as_mut() else { return vec!["dead".into(); lines.len()] };
        if lines[0].trim() != "unc{" { return vec!["bad-op".into(); lines.len()]; }
        let mut ans = vec!["ok".to_string()];
        let inner = run_unc(a.alter(), &lines[1..]);
        if inner.iter().any(|x| x == "panic") { self.dead = true; }
        ans.extend(inner);
        ans
    }
    fn is_dead(&self) -> bool { self.dead }
}

struct VecM<R: MkReloc> { a: Option<VecAssembler<R>>, pool: Option<LitPool>, dyns: Vec<DynamicLabel>, dead: bool }
impl<R: MkReloc> Machine for VecM<R> {
    fn op(&mut self, ws: &[&str]) -> String {
        let Some(a) = self.a.as_mut() else { return "dead".into() };
        match ws {
            ["nd"] => format!("id {}", a.new_dynamic_label().get_id()),
            ["c"] => match a.commit() { Ok(()) => "ok".into(), Err(e) => format!("err {}", show_err(&e)) },
            ["fin"] => { let a = self.a.take().unwrap(); self.dead = true; match a.finalize() { Ok(v) => format!("ok {}", hex(&v)), Err(e) => format!("err {}", show_err(&e)) } }
            ["take"] => match a.take() { Ok(v) => format!("ok {}", hex(&v)), Err(e) => format!("err {}", show_err(&e)) },
            ["drain"] => match a.drain() { Ok(it) => { let v: Vec<u8> = it.collect(); format!("ok {}", hex(&v)) }, Err(e) => format!("err {}", show_err(&e)) },
            _ => label_op(a, &mut self.pool, &self.dyns, ws).unwrap_or("bad-op".into()),
        }
    }
    fn block(&mut self, lines: &[String]) -> Vec<String> {
        let Some(a) = self.a.as_mut() else { return vec!["dead".into(); lines.len()] };
        if lines[0].trim() != "unc{" { return vec!["bad-op".into(); lines.len()]; }
        let mut ans = vec!["ok".to_string()];
        let inner = run_unc(a.alter(), &lines[1..]);
        if inner.iter().any(|x| x == "panic") { self.dead = true; }
        ans.extend(inner);
        ans
    }
    fn is_dead(&self) -> bool { self.dead }
}

/// `first_reader` is an `Executor` taken right after construction and kept for the whole life of the assembler: every later
/// observation goes through it *and* through a fresh `reader()`, and the two must agree (an executor never goes stale).
struct AsmM<R: MkReloc> { a: Option<Assembler<R>>, pool: Option<LitPool>, dyns: Vec<DynamicLabel>, dead: bool, addr: usize, first_reader: Option<dynasmrt::Executor> }
impl<R: MkReloc> AsmM<R> {
    fn cur_addr(a: &Assembler<R>) -> usize { a.reader().lock().as_ptr() as usize }
    fn addr_answer(&mut self) -> String {
        let now = Self::cur_addr(self.a.as_ref().unwrap());
        let moved = now != self.addr;
        self.addr = now;
        format!("ok addr={} moved={}", now, moved as u8)
    }
}
fn resolve_at(ws: &[&str], base: usize) -> Vec<String> {
    ws.iter().map(|w| match w.strip_prefix('@').and_then(|d| d.parse::<i64>().ok()) {
        Some(d) => format!("{}", (base as i64 + d) as usize),
        None => w.to_string(),
    }).collect()
}

impl<R: MkReloc> Machine for AsmM<R> {
    fn op(&mut self, ws: &[&str]) -> String {
        let owned = resolve_at(ws, self.addr);
        let ws: Vec<&str> = owned.iter().map(|s| s.as_str()).collect();
        let ws = ws.as_slice();
        let Some(a) = self.a.as_mut() else { return "dead".into() };
        match ws {
            ["nd"] => format!("id {}", a.new_dynamic_label().get_id()),
            ["c"] => match a.commit() {
                Ok(()) => self.addr_answer(),
                // a growing commit whose address-dependent fields cannot follow the buffer reports that AFTER the move: say where the buffer is now
                Err(e) if show_err(&e) == "Impossible(managed)" => { let w = self.addr_answer(); format!("err {} {}", show_err(&e), &w[3..]) }
                Err(e) => format!("err {}", show_err(&e)),
            },
            ["buf"] => {
                let fresh = { let r = a.reader(); let g = r.lock(); hex(&g) };
                let old = { let g = self.first_reader.as_ref().unwrap().lock(); hex(&g) };
                if fresh == old { fresh } else { format!("{} stale-executor-sees={}", fresh, old) }
            }
            ["ptr", n] => {
                let Ok(n) = n.parse::<usize>() else { return "bad-op".into() };
                let r = a.reader();
                let g = r.lock();
                let p = g.ptr(AssemblyOffset(n));
                format!("{}", unsafe { *p })
            }
            ["fin"] => {
                let a = self.a.take().unwrap();
                self.dead = true;
                self.first_reader = None;
                match a.finalize() {
                    Ok(buf) => format!("ok addr={} {}", buf.as_ptr() as usize, hex(&buf)),
                    Err(_) => "err still-borrowed".into(),
                }
            }
            _ => label_op(a, &mut self.pool, &self.dyns, ws).unwrap_or("bad-op".into()),
        }
    }
    fn block(&mut self, lines: &[String]) -> Vec<String> {
        let n = lines.len();
        if self.a.is_none() { return vec!["dead".into(); n]; }
        match lines[0].trim() {
            "unc{" => {
                let a = self.a.as_mut().unwrap();
                let mut ans = vec!["ok".to_string()];
                let inner = run_unc(a.alter_uncommitted(), &lines[1..]);
                if inner.iter().any(|x| x == "panic") { self.dead = true; }
                ans.extend(inner);
                ans
            }
            "alter{" => {
                let dyns = self.dyns.clone();
                // `@N` targets inside a session are resolved against the address known before the session (the generator commits
                // before opening a session that uses them, so the implicit commit of `alter` cannot move the buffer)
                let resolved: Vec<String> = lines.iter().map(|l| {
                    let ws: Vec<&str> = l.split_whitespace().collect();
                    resolve_at(&ws, self.addr).join(" ")
                }).collect();
                let lines: &[String] = &resolved;
                let a = self.a.as_mut().unwrap();
                let mut inner: Vec<String> = Vec::new();
                let mut ran = false;
                let res = catch_unwind(AssertUnwindSafe(|| {
                    a.alter(|m| {
                        ran = true;
                        let mut pool: Option<LitPool> = None;
                        for l in &lines[1..n - 1] {
                            let ws: Vec<&str> = l.split_whitespace().collect();
                            // a panic unwinds through the closure (and poisons the lock, like in a user's program)
                            inner.push("panic".into());
                            let s = match ws.as_slice() {
                                ["goto", k] => match k.parse() { Ok(k) => { m.goto(AssemblyOffset(k)); "ok".to_string() } Err(_) => "bad-op".into() },
                                ["chk", k] => match k.parse() { Ok(k) => match m.check(AssemblyOffset(k)) { Ok(()) => "ok".into(), Err(e) => format!("err {}", show_err(&e)) }, Err(_) => "bad-op".into() },
                                ["chkx", k] => match k.parse() { Ok(k) => match m.check_exact(AssemblyOffset(k)) { Ok(()) => "ok".into(), Err(e) => format!("err {}", show_err(&e)) }, Err(_) => "bad-op".into() },
                                _ => label_op(m, &mut pool, &dyns, &ws).unwrap_or("bad-op".into()),
                            };
                            *inner.last_mut().unwrap() = s;
                        }
                    })
                }));
                let mut ans: Vec<String> = Vec::new();
                match res {
                    Ok(Ok(())) => {
                        ans.push(self.addr_answer());
                        ans.extend(inner);
                        ans.push("ok".into());
                    }
                    Ok(Err(e)) => {
                        if ran {
                            ans.push(self.addr_answer());
                            ans.extend(inner);
                            ans.push(format!("err {}", show_err(&e)));
                        } else {
                            ans.push(format!("err {}", show_err(&e)));
                            ans.extend(std::iter::repeat("skipped".to_string()).take(n - 2));
                            ans.push(format!("err {}", show_err(&e)));
                        }
                    }
                    Err(_) => {
                        self.dead = true;
                        if !ran {
                            ans.push("panic".into());
                        } else {
                            // the address cannot be read any more (lock poisoned): report the last known one
                            ans.push(format!("ok addr={} moved=?", self.addr));
                            ans.extend(inner);
                        }
                        if ans.iter().all(|x| x != "panic") { ans.push("panic".into()); }
                        while ans.len() < n { ans.push("dead".into()); }
                    }
                }
                ans
            }
            _ => vec!["bad-op".into(); n],
        }
    }
    fn is_dead(&self) -> bool { self.dead }
}

pub struct AsmState {
    m: Option<Box<dyn Machine>>,
    block: Vec<String>,
    depth_kind: Option<String>,
    dead: bool,
}

impl AsmState {
    pub fn new() -> Self { AsmState { m: None, block: Vec::new(), depth_kind: None, dead: false } }

    fn construct(&mut self, ws: &[&str]) -> String {
        self.dead = false;
        self.block.clear();
        self.depth_kind = None;
        let dyns = dyn_table();
        match ws {
            ["new", "simple"] => { self.m = Some(Box::new(SimpleM { a: Some(SimpleAssembler::new()), dead: false })); "ok".into() }
            ["new", "vec", fam, base] => {
                let Some(base) = base.strip_prefix("base=").and_then(|b| b.parse::<usize>().ok()) else { return "bad-op".into() };
                self.m = Some(match *fam {
                    "x64" => Box::new(VecM::<X64Relocation> { a: Some(VecAssembler::new(base)), pool: None, dyns, dead: false }) as Box<dyn Machine>,
                    "x86" => Box::new(VecM::<X86Relocation> { a: Some(VecAssembler::new(base)), pool: None, dyns, dead: false }),
                    "a64" => Box::new(VecM::<Aarch64Relocation> { a: Some(VecAssembler::new(base)), pool: None, dyns, dead: false }),
                    "rv" => Box::new(VecM::<RiscvRelocation> { a: Some(VecAssembler::new(base)), pool: None, dyns, dead: false }),
                    _ => return "bad-op".into(),
                });
                "ok".into()
            }
            ["new", "asm", fam] => {
                macro_rules! mk { ($r:ty) => {{
                    let a = Assembler::<$r>::new().unwrap();
                    let addr = AsmM::<$r>::cur_addr(&a);
                    let first_reader = Some(a.reader());
                    (Box::new(AsmM::<$r> { a: Some(a), pool: None, dyns, dead: false, addr, first_reader }) as Box<dyn Machine>, addr)
                }}; }
                let (m, addr) = match *fam {
                    "x64" => mk!(X64Relocation), "x86" => mk!(X86Relocation), "a64" => mk!(Aarch64Relocation), "rv" => mk!(RiscvRelocation),
                    _ => return "bad-op".into(),
                };
                self.m = Some(m);
                format!("ok addr={} moved=0", addr)
            }
            _ => "bad-op".into(),
        }
    }

    /// feed one request line; prints the request(s) and answer(s) once they are known
    pub fn feed<W: Write>(&mut self, line: &str, out: &mut W) {
        let ws: Vec<&str> = line.split_whitespace().collect();
        if self.depth_kind.is_some() {
            self.block.push(line.to_string());
            let closer = if self.depth_kind.as_deref() == Some("alter{") { "}alter" } else { "}unc" };
            if ws == [closer] {
                let lines = std::mem::take(&mut self.block);
                self.depth_kind = None;
                let answers = if self.dead || self.m.is_none() { vec!["dead".to_string(); lines.len()] } else {
                    let m = self.m.as_mut().unwrap();
                    let r = catch_unwind(AssertUnwindSafe(|| m.block(&lines)));
                    match r { Ok(a) => { if m.is_dead() { self.dead = true; } a }, Err(_) => { self.dead = true; vec!["panic".to_string(); lines.len()] } }
                };
                for (l, a) in lines.iter().zip(answers.iter()) {
                    writeln!(out, "{}\n= {}", l.trim(), a).unwrap();
                }
            }
            return;
        }
        if ws == ["alter{"] || ws == ["unc{"] {
            self.depth_kind = Some(ws[0].to_string());
            self.block.push(line.to_string());
            return;
        }
        writeln!(out, "{}", line.trim()).unwrap();
        let ans = if ws.first() == Some(&"new") { self.construct(&ws) }
        else if ws == ["reset"] { self.m = None; self.dead = false; "ok".into() }
        else if self.dead { "dead".to_string() }
        else if let Some(m) = self.m.as_mut() {
            match catch_unwind(AssertUnwindSafe(|| m.op(&ws))) {
                Ok(s) => { if m.is_dead() { self.dead = true; } s }
                Err(_) => { self.dead = true; "panic".into() }
            }
        } else { "bad-op".into() };
        writeln!(out, "= {}", ans).unwrap();
    }

    pub fn handle(&mut self, _ws: &[&str]) -> String { "bad-op".into() }
}
