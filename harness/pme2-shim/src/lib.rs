//! Stand-in for `proc-macro-error2` when the dynasm plugin is compiled as an ordinary library: `emit_error!` records the
//! message in a thread local instead of requiring a proc-macro entry point, so diagnostics are observable by the harness.
use std::cell::RefCell;

thread_local! {
    static ERRORS: RefCell<Vec<String>> = RefCell::new(Vec::new());
}

pub fn record(msg: String) {
    ERRORS.with(|e| e.borrow_mut().push(msg));
}

/// take (and clear) the diagnostics recorded on this thread
pub fn take_errors() -> Vec<String> {
    ERRORS.with(|e| std::mem::take(&mut *e.borrow_mut()))
}

/// placeholder so that `use proc_macro_error2::proc_macro_error;` resolves (the attribute itself is stripped by build.rs)
#[allow(non_upper_case_globals)]
pub const proc_macro_error: () = ();

#[macro_export]
macro_rules! emit_error {
    ($span:expr, $msg:literal) => {{
        let _ = &$span;
        $crate::record(String::from($msg));
    }};
    ($span:expr, $fmt:literal $(, $args:expr)* $(,)?) => {{
        let _ = &$span;
        $crate::record(format!($fmt $(, $args)*));
    }};
    ($span:expr, $e:expr) => {{
        let _ = &$span;
        $crate::record(format!("{}", $e));
    }};
}
